#!/usr/bin/env python3
"""Regenerate /verif/MANIFEST.json from the table below (kept in one place so it stays valid)."""
import json, os, subprocess
ROOT = os.path.dirname(os.path.dirname(os.path.abspath(__file__)))

SIM = "deterministic simulation"
TRUST = ("Sampling, not proof. Trusted: the harness (sim/src), its toy block cipher and reference model "
         "(self-tested at start-up), rustc, and the cipher/inout/hybrid-array crates except where known_findings.json says otherwise. "
         "Modes run as real code from /repo's working tree (path dependencies, rebuilt by every command); the block cipher is a harness stub "
         "(SimCipher) in most runs and real AES-128/Magma/Kuznyechik/BelT in the rest. No clock, network, disk, allocator or thread exists in the code, "
         "so those fault kinds are not injected.")

# id -> (built, category, technique, text, design_ref, extra note)
CHECKS = {
 "C01": (True, "exploration", SIM + ": two parties with independent call schedules and backend widths over a fault-free simulated channel; twin-run oracle",
         "Seeded search over (mode, cipher, block size, key, IV, message, encrypting schedule, decrypting schedule); the decrypting party may reach a common start offset by another route (consuming keystream instead of seeking) and may crash and restart from its own exported state; decryptor must return the message and unpadded lengths must be preserved. No model: a consistently wrong but invertible mode passes here and fails C02-C04/C06.", "6/C01"),
 "C02": (True, "exploration", SIM + ": seeded call histories (with restart-from-exported-state and clone events, per-call backend width) checked step by step against a reference model",
         "Every operation of a seeded history on cbc/pcbc/ige Encryptor/Decryptor is compared with the defining recurrence (output and exported chaining value), on honest, arbitrary and corrupted ciphertext.", "6/C02"),
 "C03": (True, "exploration", SIM + ": seeded call histories checked step by step against a reference model, plus an invariant over the recorded cipher-seam trace (no decrypt-direction call)",
         "CFB/CFB-8/OFB block-level, one-shot, buffered and byte-stream front ends are compared with the recurrences for every chunking drawn; the seam trace shows only encrypt-direction calls during data processing.", "6/C03"),
 "C04": (True, "exploration", SIM + ": invariant over the recorded cipher-seam trace of seeded apply/seek histories (every block handed to the cipher equals layout(IV, i))",
         "Partial fit: the property itself is a pure function; what simulation adds is the seam observation point, per-call backend width and histories (apply / seek / set_block_pos / clone / restart from exported state, all four constructors) that reach far and wrapping counter values.", "6/C04"),
 "C06": (True, "exploration", SIM + ": invariant over the recorded cipher-seam trace of seeded apply/seek histories against the STB 34.101.31 definition",
         "Partial fit (as C04): seam trace E-inputs must be LE(s0+i+1), first event E(IV); parallel keystream path (never run by the suite) is exercised through widths > 1; IVs chosen as D(target) so that the 128-bit state sits next to a carry; restart from exported state; all four constructors.", "6/C06"),
 "C07": (True, "exploration", SIM + ": twin runs of the real code under different call compositions, call forms and per-call backend widths vs block-at-a-time at width 1",
         "Output and chaining state after every piece must equal the block-at-a-time run. No model.", "6/C07"),
 "C08": (True, "exploration", SIM + ": twin runs of the real code, seeded chunking of a byte stream vs one call",
         "Byte-stream wrappers and buffered CFB under arbitrary piece boundaries (empty pieces, straddling pieces) vs one call; one-shot CFB/CFB-8 prefix preservation.", "6/C08"),
 "C09": (True, "fault_enumeration", SIM + ": crash/restart injection - every cut point of a sampled history is a crash after which only the exported IV state survives",
         "For each sampled scenario all cut points are enumerated: export, drop, rebuild from the exported value, continue under a fresh schedule; output must equal the uninterrupted run and the exported value must equal the observable public chaining value.", "6/C09"),
 "C10": (True, "exploration", SIM + ": seeded histories of seek/apply/position operations with position arithmetic, twin routes to the same position and seam-trace invariants",
         "Reported position must equal the tracked integer position or be an error when it does not fit; bytes after a seek equal the keystream from offset 0 (sequentially or via an independent route).", "6/C10"),
 "C11": (True, "fault_enumeration", SIM + ": resource-exhaustion fault - instances are placed a few blocks before the keystream limit and driven across it, with jumps of 2^k blocks (modulo the counter width) inside the same keystream; error contract plus seam-trace uniqueness invariant",
         "Requests succeed iff they fit; failures leave buffers, position and following bytes untouched; remaining_blocks is exact; no cipher input value ever serves two positions.", "6/C11"),
 "C12": (True, "exploration", SIM + ": twin runs of identical histories, one in place and one buffer-to-buffer into a dirty output buffer",
         "Partial fit: the buffer form is one more per-step schedule choice; outputs and exported state must agree after every call.", "6/C12"),
 "C13": (True, "fault_enumeration", SIM + ": injected contract-violating calls inside valid histories (error and untouched buffers expected) and a no-panic sweep with every run under catch_unwind",
         "Each rejected-call kind is enumerated over every type that exposes it; valid neighbours must succeed.", "6/C13"),
 "C14": (True, "exploration", SIM + ": replica agreement - several front ends process one logical stream under independent schedules and must never diverge",
         "Partial fit: pairwise equality of buffered/block/one-shot CFB, OFB's four faces, CTR/BelT core vs wrapper, cts on whole blocks vs CBC/raw E, key-bytes vs keyed-cipher construction.", "6/C14"),
 "C15": (True, "fault_enumeration", SIM + ": corruption faults injected on the simulated channel between encryptor and decryptor; twin decryptions clean vs corrupted",
         "All corruption positions are enumerated for each sampled message; the difference must have exactly the support that is a theorem for a bijective cipher; keystream independence checked on the seam trace.", "6/C15"),
 "C16": (True, "exploration", SIM + ": seeded interleaving of operations on an original and its clone (or two unrelated instances) vs sequential replays",
         "Outputs, positions and exported states of the interleaved actors (original, one or two clones made by clone or clone_from, or an unrelated instance sharing neither, only the IV, or only the key) must equal those of fresh instances replaying each actor's lineage of calls sequentially; a run that does not reproduce when the same calls are made again is a violation here (hidden global state).", "6/C16"),
 "C17": (True, "fault_enumeration", SIM + ": drop injected at every prefix of a sampled history with a harness-side scan of the object's storage; Debug text compared across instances; positive control build without zeroize",
         "Good fit for zeroize (drop after every prefix of a history, scan for IV, E(IV), exported state, its image under E, block counter and next keystream; control build without zeroize must show residue for every type), thin for Debug ({:?} and {:#?} compared across instances and along a history, incl. at the keystream end).", "6/C17"),
}
NA = {
 "C05": "Not a simulation target: the cts types are consumed by a single call, carry no state between calls, and the property is a pure function of (cipher, IV, message) with no schedule, history, fault or second party in it. Running seeded inputs against a reference would be input generation in simulator vocabulary, so it is not claimed (DESIGN.md section 2). The cts code still runs inside C01, C07, C12, C13 and C14, where a schedule, seam or fault does matter.",
}

def main():
    head = subprocess.run(["git", "-C", "/repo", "log", "--format=%H %s"], capture_output=True, text=True).stdout.splitlines()
    hooks_commits = [l.split()[0] for l in head if " hook:" in l or " verif-hook:" in l]
    checks = []
    na = [{"property_id": k, "reason": v} for k, v in NA.items()]
    for pid, (built, cat, tech, text, ref) in CHECKS.items():
        if not built:
            na.append({"property_id": pid, "reason": "check not built yet in this revision of /verif (work in progress; design in DESIGN.md section " + ref + ")"})
            continue
        checks.append({
            "property_id": pid,
            "quick_cmd": "./vcheck %s quick" % pid,
            "thorough_cmd": "./vcheck %s thorough" % pid,
            "evidence_file": "/verif/evidence/%s.json" % pid,
            "replay_cmd_template": "./vcheck replay {path}",
            "engine": "vsim",
            "level_claimed": {"category": cat, "text": text, "design_ref": "DESIGN.md section " + ref},
            "level_note": TRUST,
            "technique": tech,
        })
    na.sort(key=lambda x: x["property_id"])
    m = {
        "version": 1,
        "setup_cmd": "./vcheck selftest",
        "hooks": {
            "guard": "rustcrypto_block_modes_verif",
            "enable": "no hooks are needed: every seam used (cipher traits, *_with_backend, iv_state, get_state/from_state, get_core/from_core, set_block_pos) is existing public API; the simulator depends on /repo/* by path",
            "baseline_off_cmd": "cd /repo && cargo test --workspace --no-fail-fast --offline",
            "source_commits": hooks_commits,
            "add_only": True,
        },
        "engines": [{"name": "vsim", "path": "/verif/sim", "serves_properties": [c["property_id"] for c in checks],
                     "kind_free_text": "single-process deterministic simulator: harness-owned block cipher (seam), seeded call schedules, lifecycle and fault events, explicit-trace replay and delta-debugging minimisation"}],
        "checks": checks,
        "not_applicable": na,
        "notes": "VERIF_SEED (default 1) decides every run; exit 2 = harness error. known_findings.json lists recorded findings and fixed: entries.",
    }
    json.dump(m, open(os.path.join(ROOT, "MANIFEST.json"), "w"), indent=1)
    print("MANIFEST.json: %d checks, %d not_applicable" % (len(checks), len(na)))

main()
