#!/bin/bash
# usage: tools/try_seeded.sh <property-id> <mN> [source-dir]
# 1. confirms the seeded change in a scratch worktree (suite passes with it; demo fails with it, passes without)
# 2. applies it to /repo, runs every check's quick command, records which checks alarm, reverts /repo
set -u
ID="$1"; M="$2"; SRC="${3:-/tmp/seeded-out/$ID}"
ROOT=/verif
WT=/tmp/verify-wt
TAG="${4:-}"
OUT="$ROOT/seeded/$ID-$TAG$M"
DIFF="$SRC/$M.diff"; DEMO="$SRC/${M}_demo.rs"
[ -f "$DIFF" ] || { echo "no $DIFF"; exit 2; }
mkdir -p "$OUT"
if [ ! -d "$WT" ]; then git -C /repo worktree add -q --detach "$WT" HEAD || exit 2; fi
git -C "$WT" checkout -q --detach "$(git -C /repo rev-parse HEAD)" && git -C "$WT" checkout -q -- . && git -C "$WT" clean -fdq -e target
place=$(head -1 "$DEMO" | sed -n 's|^// place at: *||p' | tr -d '\r ')
crate=${place%%/*}
feat=$(head -12 "$DEMO" | grep -o -- '--features [a-z,_-]*' | head -1)
res_suite=skip; res_demo_with=skip; res_demo_without=skip
if git -C "$WT" apply --check "$DIFF" 2>/dev/null; then
  # demo without the change
  mkdir -p "$WT/$(dirname "$place")"; cp "$DEMO" "$WT/$place"
  tname=$(basename "$place" .rs)
  (cd "$WT" && cargo test -p "$crate" --test "$tname" --offline $feat >/tmp/verify-demo0.log 2>&1) && res_demo_without=pass || res_demo_without=FAIL
  git -C "$WT" apply "$DIFF"
  (cd "$WT" && cargo test -p "$crate" --test "$tname" --offline $feat >/tmp/verify-demo1.log 2>&1) && res_demo_with=pass || res_demo_with=fail
  rm -f "$WT/$place"
  (cd "$WT" && cargo test --workspace --no-fail-fast --offline >/tmp/verify-suite.log 2>&1) && res_suite=pass || res_suite=FAIL
  git -C "$WT" checkout -q -- . ; git -C "$WT" clean -fdq -e target
else
  echo "diff does not apply"; res_suite=noapply
fi
echo "confirm: suite_with_change=$res_suite demo_with_change=$res_demo_with demo_without_change=$res_demo_without"
# run the checks against it
caught=""; missed=""
if [ "$res_suite" = pass ] && [ "$res_demo_with" = fail ] && [ "$res_demo_without" = pass ]; then
  git -C /repo diff --quiet || { echo "/repo is dirty, refusing"; exit 2; }
  git -C /repo apply "$DIFF" || exit 2
  for c in C01 C02 C03 C04 C06 C07 C08 C09 C10 C11 C12 C13 C14 C15 C16 C17; do
    log=$("$ROOT/vcheck" $c quick 2>&1); rc=$?
    if [ $rc -eq 1 ]; then caught="$caught $c"; echo "$log" | grep -m2 "^violation:" | cut -c1-400 > "$OUT/alarm-$c.txt";
    elif [ $rc -ne 0 ]; then caught="$caught $c(exit$rc)"; echo "$log" | tail -5 > "$OUT/alarm-$c.txt"; fi
  done
  git -C /repo checkout -q -- .
  rm -rf "$ROOT/replays"
fi
cp "$DIFF" "$OUT/patch.diff"; cp "$DEMO" "$OUT/demo.rs"; [ -f "$SRC/$M.md" ] && cp "$SRC/$M.md" "$OUT/description.md"
python3 - "$ID" "$TAG$M" "$res_suite" "$res_demo_with" "$res_demo_without" "$caught" "$OUT" <<'PY'
import json,sys
pid,m,suite,dw,dwo,caught,out=sys.argv[1:8]
c=caught.split()
meta={"breaks_property":pid,"id":"%s-%s"%(pid,m),"origin":"independent sub-agent given only the property text and a scratch worktree",
 "confirmed":{"existing_suite_with_change":suite,"demo_with_change":dw,"demo_without_change":dwo,
  "commands":["git apply patch.diff in a scratch worktree; cargo test --workspace --no-fail-fast --offline","cargo test -p <crate> --test <demo> --offline with and without the change"]},
 "checks_run":"git -C /repo apply patch.diff; ./vcheck <ID> quick for all 16 checks; git -C /repo checkout -- .",
 "alarmed":c,"target_check_alarmed": pid in [x.split('(')[0] for x in c]}
json.dump(meta,open(out+"/meta.json","w"),indent=1)
print("RESULT %s-%s suite=%s demo_with=%s demo_without=%s alarmed=[%s] target=%s"%(pid,m,suite,dw,dwo,caught.strip(),meta["target_check_alarmed"]))
PY
