#!/usr/bin/env python3
"""Print the sensitivity table (DESIGN.md 11.4) from /verif/seeded/*/meta.json."""
import json, glob, os
rows=[]
for d in sorted(glob.glob('/verif/seeded/*/meta.json')):
    m=json.load(open(d))
    desc=''
    p=os.path.join(os.path.dirname(d),'description.md')
    if os.path.exists(p):
        for l in open(p):
            l=l.strip()
            if l and not l.startswith('#'):
                desc=l[:150]; break
    fp=m.get('final_pass',{})
    rows.append((m['id'],m['breaks_property'],fp.get('caught', m.get('target_check_alarmed')),' '.join(m.get('alarmed',[])),desc))
print('| seeded change | target | caught by target check (final pass) | all checks that alarm | what it is |')
print('|---|---|---|---|---|')
for r in rows:
    print('| %s | %s | %s | %s | %s |'%(r[0],r[1],'yes' if r[2] else '**no**',r[3],r[4].replace('|','/')))
