#!/bin/bash
# re-run every check's quick command against every kept seeded change (already confirmed when it
# was first taken in); updates seeded/<id>/meta.json and alarm-*.txt.  Uses /repo itself: apply,
# run, `git checkout -- .`.
set -u
ROOT=/verif
cd $ROOT
git -C /repo diff --quiet || { echo "/repo is dirty, refusing"; exit 2; }
for d in $ROOT/seeded/*/; do
  id=$(basename "$d")
  [ -n "${1:-}" ] && [[ "$id" != $1 ]] && continue
  rm -f "$d"/alarm-*.txt
  git -C /repo apply "$d/patch.diff" || { echo "$id: patch does not apply"; continue; }
  caught=""
  for c in C01 C02 C03 C04 C06 C07 C08 C09 C10 C11 C12 C13 C14 C15 C16 C17; do
    log=$("$ROOT/vcheck" $c quick 2>&1); rc=$?
    if [ $rc -eq 1 ]; then caught="$caught $c"; echo "$log" | grep -m2 "^violation:" | cut -c1-400 > "$d/alarm-$c.txt";
    elif [ $rc -ne 0 ]; then caught="$caught $c(exit$rc)"; echo "$log" | tail -5 > "$d/alarm-$c.txt"; fi
  done
  git -C /repo checkout -q -- .
  rm -rf "$ROOT/replays"
  python3 - "$d/meta.json" "$caught" <<'PY'
import json,sys
p,caught=sys.argv[1],sys.argv[2].split()
m=json.load(open(p))
m["alarmed"]=caught
m["target_check_alarmed"]= m["breaks_property"] in [x.split('(')[0] for x in caught if not x.endswith(')')]
m["alarmed_at_verif_commit"]=__import__('subprocess').run("git -C /verif rev-parse --short HEAD",shell=True,stdout=-1).stdout.decode().strip()
json.dump(m,open(p,"w"),indent=1)
print("RECHECK %s alarmed=%s target=%s"%(m["id"]," ".join(caught),m["target_check_alarmed"]))
PY
done
echo ALLDONE
