#!/bin/bash
# final pass: for every kept seeded change run the quick command of the check of the property it
# targets (apply to /repo, run, git checkout -- .) and record the outcome in meta.json
set -u
ROOT=/verif
cd $ROOT
git -C /repo diff --quiet || { echo "/repo is dirty, refusing"; exit 2; }
for d in $ROOT/seeded/*/; do
  id=$(basename "$d")
  c=${id%%-*}
  git -C /repo apply "$d/patch.diff" || { echo "$id: patch does not apply"; continue; }
  log=$("$ROOT/vcheck" $c quick 2>&1); rc=$?
  git -C /repo checkout -q -- .
  rm -rf "$ROOT/replays"
  python3 - "$d/meta.json" "$rc" <<'PY'
import json,sys,subprocess
p,rc=sys.argv[1],int(sys.argv[2])
m=json.load(open(p))
m["final_pass"]={"target_check_exit":rc,"caught":rc==1,"verif_commit":subprocess.run("git -C /verif rev-parse --short HEAD",shell=True,stdout=-1).stdout.decode().strip()}
json.dump(m,open(p,"w"),indent=1)
print("FINAL %s target_exit=%d"%(m["id"],rc))
PY
done
echo ALLDONE
