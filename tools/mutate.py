#!/usr/bin/env python3
"""Systematic sensitivity measurement (development tool, not a MANIFEST command).

Enumerates small syntactic mutants of the library sources under /repo/*/src, keeps those that still
compile and pass the existing test suite, and runs every check's quick command against each of
them in a private copy (never in /repo itself).  Result: /verif/mutation/results.jsonl, one line
per mutant: location, operator, suite verdict, which checks alarmed.

usage: tools/mutate.py list                      -> number of candidate mutants
       tools/mutate.py run <worker> <nworkers> [max]   (run several workers in parallel)
       tools/mutate.py summary
Scratch space: /var/tmp/vmut/w<worker>/ (removed by `tools/mutate.py clean`).
"""
import glob, hashlib, json, os, random, re, shutil, subprocess, sys, time

REPO = "/var/tmp/vmut/pristine/repo"   # git archive of /repo HEAD: never the live working tree
LIVE_REPO = "/repo"
VERIF = "/verif"
PVERIF = "/var/tmp/vmut/pristine/verif"   # git archive of /verif HEAD
SCR = "/var/tmp/vmut"
OUT = VERIF + "/mutation/results.jsonl"
META = VERIF + "/mutation/run_info.json"
CHECKS = ["C01", "C02", "C03", "C04", "C06", "C07", "C08", "C09", "C10", "C11", "C12", "C13", "C14", "C15", "C16", "C17"]

# (name, regex, replacement) applied to one occurrence on one line
OPS = [
    ("add->sub", r"wrapping_add", "wrapping_sub"),
    ("sub->add", r"wrapping_sub", "wrapping_add"),
    ("wrap->sat", r"wrapping_add", "saturating_add"),
    ("be->le", r"to_be_bytes", "to_le_bytes"),
    ("le->be", r"to_le_bytes", "to_be_bytes"),
    ("frombe->le", r"from_be_bytes", "from_le_bytes"),
    ("fromle->be", r"from_le_bytes", "from_be_bytes"),
    ("fromne->be", r"from_ne_bytes", "from_be_bytes"),
    ("tone->be", r"to_ne_bytes", "to_be_bytes"),
    ("in->out", r"get_in\(\)", "get_out()"),
    ("clone_in->out", r"\.clone_in\(\)", ".get_out().clone()"),
    ("lt->le", r" < ", " <= "),
    ("le->lt", r" <= ", " < "),
    ("gt->ge", r" > ", " >= "),
    ("ge->gt", r" >= ", " > "),
    ("eq->ne", r" == ", " != "),
    ("ne->eq", r" != ", " == "),
    ("and->or", r" && ", " || "),
    ("or->and", r" \|\| ", " && "),
    ("minus1->0", r" - 1\b", ""),
    ("plus1->0", r" \+ 1\b", ""),
    ("plus1->2", r" \+ 1\b", " + 2"),
    ("minus1->2", r" - 1\b", " - 2"),
    ("range1->0", r"\b1\.\.", "0.."),
    ("range0->1", r"\b0\.\.", "1.."),
    ("n-1->n", r"\[n - 1\]", "[n - 2]"),
    ("i-1->i", r"\[i - 1\]", "[i]"),
    ("i+1->i", r"\[i \+ 1\]", "[i]"),
    ("max->minus", r"::MAX - ", "::MAX - 1 - "),
    ("pos..->..", r"\[self\.pos\.\.\]", "[..]"),
    ("u1->par", r"type ParBlocksSize = U1;", "type ParBlocksSize = BK::ParBlocksSize;"),
    ("xor_in2out->noop", r"\.xor_in2out\(", ".get_out(); let _ = ("),
    ("mul->add", r" \* ", " + "),
    ("div->mul", r" / ", " * "),
    ("rem->div", r" % ", " / "),
    ("true->false", r"\btrue\b", "false"),
    ("is_empty->not", r"\.is_empty\(\)", ".len() == 1"),
    ("not->", r"!tail\.is_empty\(\)", "tail.is_empty()"),
]
# statement deletion: whole-line statements of these shapes
DEL = re.compile(r"^\s*(\*?self\.[a-z_\.]+(\[[^\]]*\])? (\+|-|\^)?= .*;|\*[a-z_\.]+ = .*;|xor\(.*\);|[a-z_\.]+\.zeroize\(\);|self\.[a-z_\.]+\.zeroize\(\);|core::mem::swap\(.*\);|[a-z_]+\[[^\]]*\]\.copy_from_slice\(.*\);|[a-z_\.]+\(\)\.copy_from_slice\(.*\);|[a-z_\.]+\(\)\[[^\]]*\]\.copy_from_slice\(.*\);|cn\.ctr = .*;|s = s\.wrapping_add\(1\);|block\[[^\]]*\]\.copy_from_slice\(.*\);)\s*$")


def ensure_pristine():
    if not os.path.isdir(REPO):
        os.makedirs(REPO, exist_ok=True)
        os.makedirs(PVERIF, exist_ok=True)
        sh("git -C %s archive HEAD | tar -x -C %s" % (LIVE_REPO, REPO))
        sh("git -C %s archive HEAD | tar -x -C %s" % (VERIF, PVERIF))


def sources():
    ensure_pristine()
    fs = []
    for f in sorted(glob.glob(REPO + "/*/src/**/*.rs", recursive=True)):
        fs.append(f)
    return fs


def candidates():
    out = []
    for f in sources():
        rel = os.path.relpath(f, REPO)
        lines = open(f).read().split("\n")
        in_fmt = False
        for i, l in enumerate(lines):
            st = l.strip()
            if st.startswith("//") or st.startswith("#[") or st.startswith("#!["):
                continue
            if "fn write_alg_name" in l or "fn fmt(" in l:
                in_fmt = True
            if in_fmt:
                # Debug / name text is covered by C17 through two dedicated operators below
                if st == "}":
                    in_fmt = False
                m = re.search(r'f\.write_str\("([^"]+)"\)', l)
                if m and "..." in m.group(1):
                    out.append((rel, i, "debug-leak", l, l.replace('f.write_str("', 'write!(f, "{:?}", &self.iv_debug_probe()).ok(); f.write_str("') if False else None))
                continue
            for name, rx, rep in OPS:
                for m in re.finditer(rx, l):
                    nl = l[: m.start()] + re.sub(rx, rep, l[m.start():], count=1)
                    if nl != l:
                        out.append((rel, i, name, l, nl))
            if DEL.match(l):
                out.append((rel, i, "delete-stmt", l, re.match(r"^\s*", l).group(0) + "// deleted"))
    out = [c for c in out if c[4] is not None]
    # stable ids
    res = []
    for rel, i, name, old, new in out:
        h = hashlib.sha1(("%s:%d:%s:%s" % (rel, i, name, new)).encode()).hexdigest()[:10]
        res.append({"id": h, "file": rel, "line": i + 1, "op": name, "old": old.strip(), "new": new.strip(), "_new_line": new})
    return res


def sh(cmd, cwd=None, timeout=3600, env=None):
    try:
        p = subprocess.run(cmd, shell=True, cwd=cwd, stdout=subprocess.PIPE, stderr=subprocess.STDOUT, timeout=timeout, env=env)
        return p.returncode, p.stdout.decode(errors="replace")
    except subprocess.TimeoutExpired:
        return 124, "timeout"


def setup_worker(w):
    base = "%s/w%d" % (SCR, w)
    os.makedirs(base, exist_ok=True)
    repo = base + "/repo"
    ver = base + "/verif"
    if not os.path.isdir(repo):
        sh("rsync -a --exclude target --exclude .git %s/ %s/" % (REPO, repo))
    if not os.path.isdir(ver):
        sh("rsync -a --exclude seeded --exclude mutation --exclude evidence %s/ %s/" % (PVERIF, ver))
    t = open(ver + "/sim/Cargo.toml").read().replace('path = "/repo/', 'path = "%s/' % repo)
    open(ver + "/sim/Cargo.toml", "w").write(t)
    return repo, ver


def run(w, n, maxn):
    cands = candidates()
    random.Random(20261003).shuffle(cands)
    done = set()
    if os.path.exists(OUT):
        for l in open(OUT):
            try:
                done.add(json.loads(l)["id"])
            except Exception:
                pass
    repo, ver = setup_worker(w)
    env = dict(os.environ, CARGO_NET_OFFLINE="true", CARGO_TARGET_DIR="%s/w%d/target-tests" % (SCR, w))
    count = 0
    for k, c in enumerate(cands):
        if k % n != w or c["id"] in done:
            continue
        if maxn and count >= maxn:
            break
        count += 1
        # fresh sources
        sh("rsync -rl --checksum --exclude target --exclude .git %s/ %s/" % (REPO, repo))
        path = os.path.join(repo, c["file"])
        lines = open(path).read().split("\n")
        if lines[c["line"] - 1].strip() != c["old"]:
            continue
        lines[c["line"] - 1] = c["_new_line"]
        open(path, "w").write("\n".join(lines))
        # cargo decides freshness by mtime: rsync without -t gives changed files the current time,
        # so both the mutation and its later restoration are noticed
        rec = {k2: v for k2, v in c.items() if not k2.startswith("_")}
        t0 = time.time()
        rc, out = sh("cargo test --workspace --no-fail-fast --offline 2>&1", cwd=repo, env=env, timeout=1800)
        compiled = not ("could not compile" in out or "error[E" in out)
        rcq = rc
        if not compiled:
            rec["suite"] = "does-not-compile"
        elif rcq != 0:
            rec["suite"] = "killed-by-existing-tests"
        else:
            rec["suite"] = "survives-existing-tests"
            alarms = []
            for ch in CHECKS:
                rcc, outc = sh("./vcheck %s quick" % ch, cwd=ver, env=dict(os.environ, CARGO_NET_OFFLINE="true"), timeout=3600)
                if rcc == 1:
                    alarms.append(ch)
                elif rcc != 0:
                    alarms.append("%s(exit%d)" % (ch, rcc))
            rec["alarmed"] = alarms
        rec["seconds"] = round(time.time() - t0)
        with open(OUT, "a") as f:
            f.write(json.dumps(rec) + "\n")
        print(json.dumps(rec), flush=True)


def summary():
    rs = [json.loads(l) for l in open(OUT)]
    by = {}
    for r in rs:
        by.setdefault(r["suite"], []).append(r)
    print("mutants evaluated:", len(rs))
    for k, v in by.items():
        print("  %s: %d" % (k, len(v)))
    surv = by.get("survives-existing-tests", [])
    killed = [r for r in surv if any(not a.endswith(")") or "exit1" in a for a in r.get("alarmed", []))]
    alive = [r for r in surv if not r.get("alarmed")]
    harness = [r for r in surv if r.get("alarmed") and all(a.endswith(")") for a in r["alarmed"])]
    print("of those surviving the existing tests: caught by >=1 check: %d, only harness errors: %d, not caught: %d" % (len(killed), len(harness), len(alive)))
    for r in alive:
        print("   NOT CAUGHT %s:%d [%s] %s  ->  %s" % (r["file"], r["line"], r["op"], r["old"], r["new"]))
    for r in harness:
        print("   HARNESS-ONLY %s:%d [%s] %s -> %s  %s" % (r["file"], r["line"], r["op"], r["old"], r["new"], r["alarmed"]))


if __name__ == "__main__":
    cmd = sys.argv[1] if len(sys.argv) > 1 else "list"
    if cmd == "list":
        c = candidates()
        print(len(c), "candidate mutants")
        ops = {}
        for x in c:
            ops[x["op"]] = ops.get(x["op"], 0) + 1
        print(ops)
    elif cmd == "run":
        os.makedirs(VERIF + "/mutation", exist_ok=True)
        ensure_pristine()
        if not os.path.exists(META):
            rh = subprocess.run("git -C /repo rev-parse HEAD", shell=True, stdout=subprocess.PIPE).stdout.decode().strip()
            vh = subprocess.run("git -C /verif rev-parse HEAD", shell=True, stdout=subprocess.PIPE).stdout.decode().strip()
            json.dump({"repo_commit": rh, "verif_commit": vh, "note": "mutants are applied to private copies of `git archive HEAD` of /repo; checks come from `git archive HEAD` of /verif"}, open(META, "w"), indent=1)
        run(int(sys.argv[2]), int(sys.argv[3]), int(sys.argv[4]) if len(sys.argv) > 4 else 0)
    elif cmd == "summary":
        summary()
    elif cmd == "clean":
        shutil.rmtree(SCR, ignore_errors=True)
