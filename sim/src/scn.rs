//! Explicit scenarios: the *only* input of an executor.  Generators produce them, the shrinker
//! edits them, replay files are them (as JSON).  Replay never regenerates from a seed.

use crate::factory::CK;
use crate::json::{J, hex, unhex};
use crate::prng::Fp;
use crate::simcipher::Policy;
use std::collections::BTreeMap;

#[derive(Clone, Debug, PartialEq)]
pub struct Op {
    /// operation kind (meaning is per check; see each check's module doc)
    pub k: String,
    /// which party / instance
    pub who: u8,
    /// primary size (blocks or bytes)
    pub n: u64,
    /// secondary size
    pub m: u64,
    /// position / seed / big argument
    pub p: u128,
    /// call form
    pub via: u8,
    /// integer type / padding / sub-kind selector
    pub ty: u8,
}

impl Op {
    pub fn new(k: &str) -> Op {
        Op { k: k.to_string(), who: 0, n: 0, m: 0, p: 0, via: 0, ty: 0 }
    }
    pub fn who(mut self, w: u8) -> Op {
        self.who = w;
        self
    }
    pub fn n(mut self, n: u64) -> Op {
        self.n = n;
        self
    }
    pub fn m(mut self, m: u64) -> Op {
        self.m = m;
        self
    }
    pub fn p(mut self, p: u128) -> Op {
        self.p = p;
        self
    }
    pub fn via(mut self, v: u8) -> Op {
        self.via = v;
        self
    }
    pub fn ty(mut self, t: u8) -> Op {
        self.ty = t;
        self
    }
    pub fn to_json(&self) -> J {
        let mut o = J::obj().with("k", J::s(&self.k));
        if self.who != 0 {
            o.set("who", J::U(self.who as u128));
        }
        if self.n != 0 {
            o.set("n", J::U(self.n as u128));
        }
        if self.m != 0 {
            o.set("m", J::U(self.m as u128));
        }
        if self.p != 0 {
            o.set("p", J::U(self.p));
        }
        if self.via != 0 {
            o.set("via", J::U(self.via as u128));
        }
        if self.ty != 0 {
            o.set("ty", J::U(self.ty as u128));
        }
        o
    }
    pub fn from_json(j: &J) -> Result<Op, String> {
        let g = |k: &str| j.get(k).and_then(|v| v.u128()).unwrap_or(0);
        Ok(Op {
            k: j.get("k").and_then(|v| v.str()).ok_or("op.k")?.to_string(),
            who: g("who") as u8,
            n: g("n") as u64,
            m: g("m") as u64,
            p: g("p"),
            via: g("via") as u8,
            ty: g("ty") as u8,
        })
    }
}

#[derive(Clone, Debug, PartialEq)]
pub struct Scn {
    pub check: String,
    pub mode: String,
    pub bs: usize,
    pub cipher: CK,
    pub key: Vec<u8>,
    pub iv: Vec<u8>,
    /// data pool: executors read it cyclically, so shrinking it never invalidates a scenario
    pub data: Vec<u8>,
    /// width policy per party/instance tag
    pub pol: Vec<Policy>,
    pub env_seed: u64,
    /// named scalar parameters (per check)
    pub nums: BTreeMap<String, u128>,
    pub ops: Vec<Op>,
}

impl Scn {
    pub fn new(check: &str, mode: &str, bs: usize, cipher: CK) -> Scn {
        Scn {
            check: check.to_string(),
            mode: mode.to_string(),
            bs,
            cipher,
            key: Vec::new(),
            iv: Vec::new(),
            data: vec![0],
            pol: vec![Policy::Fixed(1)],
            env_seed: 0,
            nums: BTreeMap::new(),
            ops: Vec::new(),
        }
    }
    pub fn num(&self, k: &str) -> u128 {
        self.nums.get(k).copied().unwrap_or(0)
    }
    pub fn set_num(&mut self, k: &str, v: u128) {
        self.nums.insert(k.to_string(), v);
    }
    /// `n` bytes of the data pool starting at logical offset `off` (cyclic)
    pub fn bytes(&self, off: usize, n: usize) -> Vec<u8> {
        let l = self.data.len().max(1);
        (0..n).map(|i| if self.data.is_empty() { 0 } else { self.data[(off + i) % l] }).collect()
    }
    /// second, independent-looking pool (for dirty output buffers): never all zero
    pub fn dirt(&self, off: usize, n: usize) -> Vec<u8> {
        let l = self.data.len().max(1);
        (0..n)
            .map(|i| {
                let d = if self.data.is_empty() { 0 } else { self.data[(off + 7 * i + 3) % l] };
                d.wrapping_mul(31).wrapping_add(((off + i) as u8).wrapping_mul(17)) | 0x01
            })
            .collect()
    }
    pub fn policy(&self, tag: usize) -> Policy {
        self.pol.get(tag).cloned().unwrap_or(Policy::Fixed(1))
    }

    pub fn to_json(&self) -> J {
        let pol = self
            .pol
            .iter()
            .map(|p| match p {
                Policy::Fixed(w) => J::obj().with("fixed", J::U(*w as u128)),
                Policy::Flap(v) => J::obj().with("flap", J::A(v.iter().map(|w| J::U(*w as u128)).collect())),
            })
            .collect();
        let nums = J::O(self.nums.iter().map(|(k, v)| (k.clone(), J::U(*v))).collect());
        J::obj()
            .with("check", J::s(&self.check))
            .with("mode", J::s(&self.mode))
            .with("bs", J::U(self.bs as u128))
            .with("cipher", J::s(self.cipher.name()))
            .with("key", J::hex(&self.key))
            .with("iv", J::hex(&self.iv))
            .with("data", J::hex(&self.data))
            .with("pol", J::A(pol))
            .with("env_seed", J::U(self.env_seed as u128))
            .with("nums", nums)
            .with("ops", J::A(self.ops.iter().map(|o| o.to_json()).collect()))
    }
    pub fn from_json(j: &J) -> Result<Scn, String> {
        let s = |k: &str| j.get(k).and_then(|v| v.str()).ok_or(format!("missing {}", k));
        let h = |k: &str| s(k).and_then(|x| unhex(x).ok_or(format!("bad hex {}", k)));
        let mut pol = Vec::new();
        for p in j.get("pol").and_then(|v| v.arr()).ok_or("pol")? {
            if let Some(w) = p.get("fixed").and_then(|v| v.u64()) {
                pol.push(Policy::Fixed(w as u8));
            } else if let Some(a) = p.get("flap").and_then(|v| v.arr()) {
                pol.push(Policy::Flap(a.iter().filter_map(|w| w.u64()).map(|w| w as u8).collect()));
            } else {
                return Err("bad policy".into());
            }
        }
        let mut nums = BTreeMap::new();
        if let Some(J::O(m)) = j.get("nums") {
            for (k, v) in m {
                nums.insert(k.clone(), v.u128().ok_or("nums value")?);
            }
        }
        let mut ops = Vec::new();
        for o in j.get("ops").and_then(|v| v.arr()).ok_or("ops")? {
            ops.push(Op::from_json(o)?);
        }
        Ok(Scn {
            check: s("check")?.to_string(),
            mode: s("mode")?.to_string(),
            bs: j.get("bs").and_then(|v| v.u64()).ok_or("bs")? as usize,
            cipher: CK::parse(s("cipher")?).ok_or("cipher")?,
            key: h("key")?,
            iv: h("iv")?,
            data: h("data")?,
            pol,
            env_seed: j.get("env_seed").and_then(|v| v.u64()).ok_or("env_seed")?,
            nums,
            ops,
        })
    }
    /// short one-line description for evidence samples
    pub fn brief(&self) -> J {
        let ops: Vec<J> = self
            .ops
            .iter()
            .take(16)
            .map(|o| {
                let mut s = o.k.clone();
                if o.who != 0 {
                    s.push_str(&format!("@{}", o.who));
                }
                if o.n != 0 || o.m != 0 {
                    s.push_str(&format!("(n={}", o.n));
                    if o.m != 0 {
                        s.push_str(&format!(",m={}", o.m));
                    }
                    s.push(')');
                }
                if o.p != 0 {
                    s.push_str(&format!("[p={}]", o.p));
                }
                if o.via != 0 {
                    s.push_str(&format!("/v{}", o.via));
                }
                if o.ty != 0 {
                    s.push_str(&format!("/t{}", o.ty));
                }
                J::S(s)
            })
            .collect();
        J::obj()
            .with("mode", J::s(&self.mode))
            .with("bs", J::U(self.bs as u128))
            .with("cipher", J::s(self.cipher.name()))
            .with("pol", J::S(format!("{:?}", self.pol)))
            .with("iv", J::S(hex(&self.iv[..self.iv.len().min(48)])))
            .with("nums", J::O(self.nums.iter().map(|(k, v)| (k.clone(), J::U(*v))).collect()))
            .with("n_ops", J::U(self.ops.len() as u128))
            .with("ops", J::A(ops))
    }
    pub fn hash(&self) -> u64 {
        let mut f = Fp::new();
        f.s(&self.to_json().compact());
        f.0
    }
}
