//! C10 - seeking and position reporting are coherent with the keystream (CTR, BelT-CTR).
//!
//! History on one seekable byte-stream alias W (tag 0):
//!   seek(p, ty) | apply(n, via=form) | pos(ty) | clone
//! with ty in {u32, u64, u128, usize, i32 (non-negative only)}.  Oracles:
//!  (a) position arithmetic: the simulator tracks the position as an integer; try_current_pos::<T>
//!      must return exactly it, may fail only if p + block size > T::MAX, must fail if p > T::MAX;
//!  (b) coherence, no model: the bytes produced after a seek equal those of a twin instance that
//!      reached the same position by another route - sequential generation from offset 0 for
//!      near positions, else set_block_pos on a core + from_core + consuming the in-block offset,
//!      or a seek to the block boundary with a different integer type + consuming the offset;
//!  (c) seam: within one instance's life the map "cipher input -> block index" is a function.
//! Out of the stated domain and not generated: negative i32 positions, positions at or beyond the
//! keystream end (C11).

use super::c04::{CTR_MODES, flavor_of, gen_ctr_iv, gen_pos, limit_blocks};
use super::common::*;
use crate::engine::{CheckDef, Ctx, Verdict};
use crate::factory::{MkErr, make_core, make_stream};
use crate::prng::Rng;
use crate::scn::{Op, Scn};
use crate::simcipher::{env_clear_trace, env_events, env_mark};
use crate::sobj::{N_APPLY_FORMS, SeekFail, StreamObj, seek_type_max};
use crate::{invalid, violation};
use std::collections::HashMap;

pub fn def() -> CheckDef {
    CheckDef {
        id: "C10",
        level: "exploration",
        runs_quick: 800_000,
        runs_thorough: 25_000_000,
        rule: "seeded histories of try_seek::<T> / apply_keystream (6 forms) / try_current_pos::<T> / clone on the seven seekable byte-stream aliases (six CTR flavours, BeltCtr), T in {u32,u64,u128,usize,i32>=0}; positions small, inside blocks, backward, forward, around 2^32 bytes, around 2^36, near (not beyond) the end of the keystream; position arithmetic against an integer tracked by the simulator; keystream coherence against a twin that reaches the same position along an independent route; cipher-input-to-block-index functionality on the seam trace. distinct = distinct (type, block size, cipher, policy, op/type/offset-class sequence); non-trivial = >= 1 seek followed by data",
        required_probes: &["seek_backward", "seek_after_partial_block", "offset_gt_2_32", "pos_not_representable", "pos_band", "route_sequential", "route_core", "route_other_type", "i32_type", "usize_type", "belt"],
        r#gen,
        exec,
        components: "real code: ctr and belt-ctr crates (StreamCipherSeekCore impls) and cipher's StreamCipherCoreWrapper seek/position logic; stub: block cipher in most runs, real AES-128/Magma/Kuznyechik/BelT in the rest; no reference model (twin routes of the real code)",
        assumptions: &["try_current_pos may fail in the band T::MAX - bs < p <= T::MAX (the wrapper multiplies before it subtracts); the property only demands an error instead of a truncated value", "sampling, not proof"],
        nondet_is_violation: false,
    }
}

const SEEKABLE: [&str; 7] = ["ctr32be", "ctr32le", "ctr64be", "ctr64le", "ctr128be", "ctr128le", "belt"];

fn r#gen(rng: &mut Rng, thorough: bool) -> Scn {
    let mode = *rng.pick(&SEEKABLE);
    let pool = 64 + rng.usize(300);
    let mut s = base_scn(rng, "C10", mode, false, 2, pool);
    let lim = match flavor_of(mode) {
        Some(fl) => {
            s.iv = gen_ctr_iv(rng, fl, s.bs);
            limit_blocks(fl)
        }
        None => {
            if s.cipher.has_dec() && rng.chance(2, 5) {
                // E(IV) next to the wrap of the 128-bit state
                let mut b = (u128::MAX - rng.below(64) as u128).to_le_bytes().to_vec();
                crate::factory::prim_dec(s.cipher, &s.key, &mut b);
                s.iv = b;
            }
            u128::MAX
        }
    };
    let bs = s.bs as u128;
    // byte positions must be expressible in u128 and stay clear of the keystream end
    let end = lim.saturating_mul(bs).min(u128::MAX - (1 << 20));
    let nops = 2 + rng.usize(if thorough { 10 } else { 7 });
    for _ in 0..nops {
        match rng.below(10) {
            0..=3 => {
                let p = gen_pos(rng, lim.min(u128::MAX / bs), s.bs).min(end.saturating_sub(1 << 16));
                // choose a type that can hold p most of the time
                let mut ty = rng.below(5) as u8;
                if p > seek_type_max(ty) && rng.chance(9, 10) {
                    ty = if p > u64::MAX as u128 { 2 } else { 1 + rng.below(2) as u8 };
                }
                s.ops.push(Op::new("seek").p(p).ty(ty));
            }
            4 | 5 => s.ops.push(Op::new("pos").ty(rng.below(5) as u8)),
            6 if mode != "belt" => s.ops.push(Op::new("clone")),
            _ => s.ops.push(Op::new("apply").n(rng.nbytes(5 * s.bs as u64, s.bs as u64)).via(rng.below(N_APPLY_FORMS as u64) as u8)),
        }
    }
    s.set_num("route", rng.below(3) as u128);
    s
}

/// a twin at byte position p reached by another route
fn twin_at(scn: &Scn, p: u128, ty_used: u8, ctx: &mut Ctx) -> Result<Box<dyn StreamObj>, Verdict> {
    let bs = scn.bs as u128;
    let route = scn.num("route");
    let mk = || make_stream(&scn.mode, scn.bs, scn.cipher, &scn.key, &scn.iv, 1, 0).map_err(|_| Verdict::Invalid("twin".into()));
    let consume = |t: &mut Box<dyn StreamObj>, n: usize| -> Result<(), Verdict> {
        let z = vec![0u8; n];
        let mut o = vec![0u8; n];
        t.apply(0, &z, &mut o).map_err(|_| Verdict::Violation { clause: "apply_err".into(), detail: "twin could not generate keystream".into() })
    };
    if p <= 4096 && route == 0 {
        ctx.probe("route_sequential");
        let mut t = mk()?;
        consume(&mut t, p as usize)?;
        return Ok(t);
    }
    if route == 1 || p <= 4096 {
        // core: set_block_pos + from_core + in-block offset consumed sequentially
        if let Ok(mut c) = make_core(&scn.mode, scn.bs, scn.cipher, &scn.key, &scn.iv, 1, 0) {
            if c.set_pos(p / bs) == Some(true) {
                ctx.probe("route_core");
                let mut t = c.into_stream();
                consume(&mut t, (p % bs) as usize)?;
                return Ok(t);
            }
        }
    }
    // seek to the block boundary with a different integer type, then consume the offset
    let bpos = p - p % bs;
    let ty2 = [2u8, 1, 3, 0, 4].into_iter().find(|t| *t != ty_used && bpos <= seek_type_max(*t)).unwrap_or(2);
    let mut t = mk()?;
    match t.seek(ty2, bpos) {
        Ok(()) => {}
        Err(_) => return Err(Verdict::Violation { clause: "seek_err".into(), detail: format!("twin: try_seek({}) with type {} failed inside the keystream", bpos, crate::sobj::SEEK_TYPES[ty2 as usize]) }),
    }
    ctx.probe("route_other_type");
    consume(&mut t, (p % bs) as usize)?;
    Ok(t)
}

fn exec(scn: &Scn, ctx: &mut Ctx) -> Verdict {
    if !SEEKABLE.contains(&scn.mode.as_str()) {
        invalid!("mode");
    }
    env_setup(scn, true);
    sig_base(ctx, scn);
    let bs = scn.bs as u128;
    let lim_blocks = flavor_of(&scn.mode).map(limit_blocks).unwrap_or(u128::MAX);
    let end = lim_blocks.saturating_mul(bs);
    ctx.probe_if(scn.mode == "belt", "belt");
    let _ = CTR_MODES;
    let mut w = match make_stream(&scn.mode, scn.bs, scn.cipher, &scn.key, &scn.iv, 0, 0) {
        Ok(o) => o,
        Err(MkErr::Unsupported) => invalid!("unsupported"),
        Err(_) => violation!("construct", "rejected"),
    };
    env_clear_trace(); // BelT's E(IV) at construction is not a keystream block
    let mut pos: u128 = 0;
    let mut twin: Option<Box<dyn StreamObj>> = None; // valid while it mirrors w's position
    let mut seen: HashMap<Vec<u8>, u128> = HashMap::new();
    let mut off = 0usize;
    let mut seeked = false;
    for (i, op) in scn.ops.iter().enumerate() {
        ctx.sig.s(&op.k);
        let mark = env_mark();
        match op.k.as_str() {
            "seek" => {
                let ty = op.ty % 5;
                if op.p >= end || op.p > u128::MAX - (1 << 20) {
                    invalid!("seek target at or beyond the keystream end (C11's domain)");
                }
                ctx.sig.u((ty as u64) << 20 | ((op.p % bs) as u64) << 4 | (op.p / bs).min(3) as u64 | ((op.p > u32::MAX as u128) as u64) << 30);
                match w.seek(ty, op.p) {
                    Ok(()) => {}
                    Err(SeekFail::Unrepresentable) => {
                        ctx.probe("seek_value_does_not_fit_type");
                        continue;
                    }
                    Err(SeekFail::Err) => violation!("seek_err", "op {}: try_seek::<{}>({}) failed although the position is inside the keystream", i, crate::sobj::SEEK_TYPES[ty as usize], op.p),
                }
                ctx.probe_if(op.p < pos, "seek_backward");
                ctx.probe_if(pos % bs != 0, "seek_after_partial_block");
                ctx.probe_if(op.p > u32::MAX as u128, "offset_gt_2_32");
                ctx.probe_if(ty == 4, "i32_type");
                ctx.probe_if(ty == 3, "usize_type");
                // block generated by the seek itself (in-block target)
                for (_, bytes) in env_events(mark).iter().filter(|(e, _)| e.tag == 0) {
                    if let Some(prev) = seen.insert(bytes.clone(), op.p / bs) {
                        if prev != op.p / bs {
                            violation!("seam_reuse", "op {}: cipher input {} used for block {} and block {}", i, hexs(bytes), prev, op.p / bs);
                        }
                    }
                }
                env_clear_trace();
                pos = op.p;
                seeked = true;
                twin = match twin_at(scn, pos, ty, ctx) {
                    Ok(t) => Some(t),
                    Err(v) => return v,
                };
                env_clear_trace();
            }
            "apply" => {
                let n = op.n as usize;
                let form = op.via % N_APPLY_FORMS;
                if pos + n as u128 > end || n > 1 << 15 {
                    invalid!("beyond the keystream (C11's domain)");
                }
                ctx.sig.u((form as u64) << 24 | ((pos % bs) as u64) << 12 | ((n as u128 % bs) as u64) << 4 | (n as u128 / bs).min(3) as u64);
                let inp = scn.bytes(off, n);
                let mut out = scn.dirt(off, n);
                if w.apply(form, &inp, &mut out).is_err() {
                    violation!("apply_err", "op {}: apply({}) at position {} failed inside the keystream", i, n, pos);
                }
                // seam: blocks newly generated by W, in order, starting at ceil(pos/bs)
                let first = pos.div_ceil(bs);
                for (j, (_, bytes)) in env_events(mark).iter().filter(|(e, _)| e.tag == 0).enumerate() {
                    let blk = first + j as u128;
                    if let Some(prev) = seen.insert(bytes.clone(), blk) {
                        if prev != blk {
                            violation!("seam_reuse", "op {}: cipher input {} used for block {} and block {}", i, hexs(bytes), prev, blk);
                        }
                    }
                }
                env_clear_trace();
                ctx.fp.bytes(&out);
                if let Some(t) = twin.as_mut() {
                    let mut o2 = vec![0u8; n];
                    if t.apply(0, &inp, &mut o2).is_err() {
                        violation!("apply_err", "twin apply failed");
                    }
                    env_clear_trace();
                    ctx.nontrivial |= seeked && n > 0;
                    if out != o2 {
                        let d = first_diff(&out, &o2);
                        violation!("coherence", "op {}: after seeking, the {} bytes at position {} differ from the keystream reached by another route (first difference at position {})", i, n, pos, pos + d as u128);
                    }
                }
                pos += n as u128;
                off += n;
                ctx.pos(pos);
            }
            "pos" => {
                let ty = op.ty % 5;
                let max = seek_type_max(ty);
                ctx.sig.u((ty as u64) << 8 | (pos > max) as u64);
                let r = w.pos(ty);
                match r {
                    Ok(v) if v == pos => {}
                    Ok(v) => violation!("position", "op {}: try_current_pos::<{}>() = {} but {} keystream bytes precede the next byte", i, crate::sobj::SEEK_TYPES[ty as usize], v, pos),
                    Err(()) if pos > max => ctx.probe("pos_not_representable"),
                    Err(()) if pos + bs > max => ctx.probe("pos_band"),
                    Err(()) => violation!("position", "op {}: try_current_pos::<{}>() failed although position {} fits the type", i, crate::sobj::SEEK_TYPES[ty as usize], pos),
                }
            }
            "clone" => {
                if let Some(c) = w.dup() {
                    w = c;
                }
            }
            _ => invalid!("op"),
        }
    }
    Verdict::Ok
}
