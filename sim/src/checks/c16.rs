//! C16 - clones and separate instances are independent, deterministic values.
//!
//! Actors O (who = 0) and K (who = 1).  History h1 runs on O; at op "clone" K = O.clone()
//! (nums.unrelated = 1: K is instead an unrelated instance with its own key/IV, alive from the
//! start); afterwards the scheduler interleaves operations on O and K in the order of the op list.
//! Reference executions: two fresh instances replay h1;h2 (O's ops) and h1;h3 (K's ops)
//! sequentially, without interleaving.  Oracle: every operation's output, and the final
//! observable state, equal the sequential replay's.  All actors use the same fixed backend width.
//! ops: data(n, via, p)@who | seek(p)@who (streams) | setpos(p)@who (cores) | clone

use super::common::*;
use super::inst::*;
use crate::engine::{CheckDef, Ctx, Verdict};
use crate::factory::MkErr;
use crate::prng::Rng;
use crate::scn::{Op, Scn};
use crate::simcipher::{Policy, WIDTHS};
use crate::{invalid, violation};

pub fn def() -> CheckDef {
    CheckDef {
        id: "C16",
        level: "exploration",
        runs_quick: 250_000,
        runs_thorough: 5_000_000,
        rule: "seeded interleavings: history h1 on an instance, clone at a seeded point (mid-block for byte-level types), then operations on original and clone interleaved operation by operation by the scheduler; or two unrelated instances (different key/IV) interleaved; compared with sequential replays on fresh instances. All cloneable public types (12 block-mode types, 7 byte-stream aliases and cores, BufEncryptor/BufDecryptor); BeltCtr/BeltCtrCore (not Clone) only as unrelated instances. distinct = distinct (type, block size, cipher, width, clone point, interleaving pattern, op forms); non-trivial = >= 1 data op on each actor after the clone",
        required_probes: &["clone_mid_block", "ctr_core_clone", "three_alternations", "unrelated_instances", "buf_clone", "belt_unrelated", "cts_clone", "second_clone", "clone_from", "unrelated_same_iv", "replayed_with_other_buffer_contents", "closing_one_shot"],
        r#gen,
        exec,
        components: "real code: all stateful public types of the nine crates incl. their Clone impls (CtrCore's is hand-written); stub: block cipher in most runs, real ciphers in the rest; scheduler: the op list itself (call-granular interleaving is the whole space: every mutating method takes &mut self and the crates forbid unsafe); no reference model",
        assumptions: &["two instances can only interact through static/thread-local state, which is visible at call granularity on one thread", "sampling, not proof"],
        nondet_is_violation: true,
    }
}

fn r#gen(rng: &mut Rng, thorough: bool) -> Scn {
    if rng.chance(1, 12) {
        // the one-shot cts types are Clone too: clone, then use both, in either order
        let mode = *rng.pick(&crate::factory::CTS_MODES);
        let pool = 64 + rng.usize(400);
        let mut s = base_scn(rng, "C16", mode, true, 1, pool);
        let w = *rng.pick(&WIDTHS);
        s.pol = vec![Policy::Fixed(w)];
        s.set_num("fam", 4);
        let bs = s.bs as u64;
        s.ops.push(Op::new("cts").who(0).n(bs + rng.nbytes(8 * bs, bs)).via(rng.below(4) as u8).ty(rng.below(2) as u8));
        s.ops.push(Op::new("cts").who(1).n(bs + rng.nbytes(8 * bs, bs)).m(rng.below(2)));
        return s;
    }
    let fam = pick_fam(rng);
    let mode = *rng.pick(fam_modes(fam));
    let pool = 64 + rng.usize(400);
    let mut s = base_scn(rng, "C16", mode, false, 1, pool);
    if let Some(fl) = super::c04::flavor_of(mode) {
        s.iv = super::c04::gen_ctr_iv(rng, fl, s.bs);
    }
    let w = *rng.pick(&WIDTHS);
    s.pol = vec![Policy::Fixed(w)];
    s.set_num("fam", fam as u128);
    let unrelated = mode == "belt" || rng.chance(1, 4);
    s.set_num("unrelated", unrelated as u128);
    s.set_num("rel", rng.below(3) as u128);
    let n1 = rng.usize(4);
    let n2 = 2 + rng.usize(if thorough { 9 } else { 6 });
    let extra = |rng: &mut Rng, s: &Scn| -> Op {
        if fam == FAM_STREAM && s.mode != "ofb" && rng.chance(1, 6) {
            Op::new("seek").p(rng.below(6 * s.bs as u64) as u128)
        } else if fam == FAM_CORE && s.mode != "ofb" && rng.chance(1, 8) {
            Op::new("setpos").p(rng.below(1 << 16) as u128)
        } else {
            gen_data_op(rng, fam, &s.mode, s.bs, w as u64)
        }
    };
    for _ in 0..n1 {
        let o = extra(rng, &s);
        s.ops.push(o);
    }
    if !unrelated {
        s.ops.push(Op::new(if rng.chance(1, 4) { "clonefrom" } else { "clone" }).m(rng.below(2)));
    }
    let second_clone_at = if !unrelated && rng.chance(1, 3) { Some(rng.usize(n2)) } else { None };
    for j in 0..n2 {
        if Some(j) == second_clone_at {
            // a clone of the original or of the first clone
            s.ops.push(Op::new(if rng.chance(1, 4) { "clonefrom" } else { "clone" }).who(rng.below(2) as u8).m(rng.below(2)));
        }
        let o = extra(rng, &s).who(rng.below(6) as u8);
        s.ops.push(o);
    }
    if fam == FAM_BLOCK && mode.starts_with("cfb") && rng.chance(1, 2) {
        // a closing byte-level one-shot on (a clone of) one actor
        let bs = s.bs as u64;
        s.ops.push(Op::new("fin").who(rng.below(6) as u8).n(rng.nbytes(4 * bs, bs)).via(rng.below(3) as u8));
    }
    s
}

fn other_key(v: &[u8], x: u8) -> Vec<u8> {
    v.iter().enumerate().map(|(i, b)| b ^ x ^ (i as u8).wrapping_mul(7)).collect()
}

fn exec(scn: &Scn, ctx: &mut Ctx) -> Verdict {
    let w = scn.pol[0].max_width();
    let mut s2 = scn.clone();
    s2.pol = vec![Policy::Fixed(w); 8];
    env_setup(&s2, false);
    sig_base(ctx, &s2);
    let fam = scn.num("fam") as u8;
    if fam == 4 {
        return exec_cts(scn, ctx);
    }
    if fam > 3 || !fam_modes(fam).contains(&scn.mode.as_str()) {
        invalid!("mode");
    }
    let unrelated = scn.num("unrelated") == 1;
    ctx.sig.u((fam as u64) << 8 | unrelated as u64);
    let bs = scn.bs;
    // the second, unrelated instance: other key and IV; or the same IV under another key; or the
    // same key with another IV (shared hidden state keyed by only one of the two would show)
    let (key2, iv2) = match scn.num("rel") % 3 {
        0 => (other_key(&scn.key, 0x5a), other_key(&scn.iv, 0xa5)),
        1 => (other_key(&scn.key, 0x5a), scn.iv.clone()),
        _ => (scn.key.clone(), other_key(&scn.iv, 0xa5)),
    };
    ctx.probe_if(unrelated && scn.num("rel") % 3 == 1, "unrelated_same_iv");
    let mk = |tag: u8, second: bool| -> Result<Inst, MkErr> {
        if second {
            Inst::make(fam, &scn.mode, bs, scn.cipher, &key2, &iv2, tag, 0)
        } else {
            Inst::make(fam, &scn.mode, bs, scn.cipher, &scn.key, &scn.iv, tag, 0)
        }
    };
    let nclones = scn.ops.iter().filter(|o| o.k == "clone" || o.k == "clonefrom").count();
    if (unrelated && nclones != 0) || (!unrelated && nclones == 0) || nclones > 2 {
        invalid!("clone ops and unrelated flag disagree");
    }
    let o = match mk(0, false) {
        Ok(i) => i,
        Err(MkErr::Unsupported) => invalid!("unsupported"),
        Err(_) => violation!("construct", "rejected"),
    };
    // actors: 0 = original; further ones are clones (of any earlier actor) or, in the unrelated
    // scenario, one independent instance.  lineage[a] = indices of the ops that shaped actor a.
    let mut actors: Vec<Inst> = vec![o];
    let mut second: Vec<bool> = vec![false];
    let mut lineage: Vec<Vec<usize>> = vec![Vec::new()];
    if unrelated {
        actors.push(mk(1, true).unwrap());
        second.push(true);
        lineage.push(Vec::new());
    }
    // --- interleaved execution
    let mut outs: Vec<Option<(usize, Result<Vec<u8>, String>)>> = Vec::new();
    let mut bytes_done = vec![0usize; 4];
    let mut alternations = 0;
    let mut last_who = 99usize;
    let mut data_after = vec![0u32; 4];
    let fin = match scn.ops.last() {
        Some(o) if o.k == "fin" => Some(o.clone()),
        _ => None,
    };
    if scn.ops.iter().filter(|o| o.k == "fin").count() > fin.is_some() as usize {
        invalid!("fin must be the last operation");
    }
    let mut fin_out: Option<(usize, Option<Result<usize, ()>>, Vec<u8>)> = None;
    for (i, op) in scn.ops.iter().enumerate() {
        if op.k == "fin" {
            // consumes a clone of the actor, so that the actor itself can still be compared
            let who = op.who as usize % actors.len();
            let n = op.n as usize;
            if n > 1 << 14 {
                invalid!("too long");
            }
            let inp = op_input(scn, i, n);
            let mut out = scn.dirt(i, n);
            let r = match actors[who].dup() {
                Some(d) => d.finish_async(op.via, &inp, &mut out),
                None => None,
            };
            ctx.probe_if(r.is_some(), "closing_one_shot");
            fin_out = Some((who, r, out));
            outs.push(None);
            continue;
        }
        if op.k == "clone" || op.k == "clonefrom" {
            let src = op.who as usize % actors.len();
            ctx.probe_if(matches!(actors[src], Inst::S(_) | Inst::F(_)) && bytes_done[src] % bs != 0, "clone_mid_block");
            ctx.probe_if(fam == FAM_CORE && scn.mode.starts_with("ctr"), "ctr_core_clone");
            ctx.probe_if(fam == FAM_BUF, "buf_clone");
            ctx.probe_if(actors.len() >= 2, "second_clone");
            let c = if op.k == "clonefrom" {
                // target: an instance with *different internals* that serialises alike (imported
                // from the source's exported state) or, failing that, a fresh one; then clone_from
                let mut t = match actors[src].export().and_then(|e| Inst::import(fam, &scn.mode, bs, scn.cipher, if second[src] { &key2 } else { &scn.key }, &e, 3).ok()) {
                    Some(t) if op.m % 2 == 0 => t,
                    _ => mk(3, second[src]).unwrap(),
                };
                if !t.assign_from(&actors[src]) {
                    invalid!("type is not Clone");
                }
                ctx.probe("clone_from");
                t
            } else {
                match actors[src].dup() {
                    Some(c) => c,
                    None => invalid!("type is not Clone"),
                }
            };
            bytes_done[actors.len()] = bytes_done[src];
            actors.push(c);
            second.push(second[src]);
            lineage.push(lineage[src].clone());
            outs.push(None);
            continue;
        }
        let who = op.who as usize % actors.len();
        let inst = &mut actors[who];
        let n = op.n as usize * inst.unit();
        if n > 1 << 15 {
            invalid!("too long");
        }
        let inp = if op.k == "data" { op_input(scn, i, n) } else { Vec::new() };
        ctx.sig.s(&op.k);
        ctx.sig.u((who as u64) << 32 | (op.via as u64) << 16 | (op.n.min(50)));
        let r = inst.step(op, &inp, scn.dirt(i, inp.len()));
        if let Err(e) = &r {
            if e == "op does not apply" || e == "unrepresentable" || e == "setpos not possible" {
                invalid!("{}", e);
            }
        }
        lineage[who].push(i);
        if op.k == "data" {
            bytes_done[who] += n;
            if actors.len() > 1 {
                data_after[who] += (n > 0) as u32;
            }
        } else if op.k == "seek" {
            bytes_done[who] = op.p as usize;
        }
        if actors.len() > 1 && who != last_who {
            alternations += 1;
            last_who = who;
        }
        if let Ok(v) = &r {
            ctx.fp.bytes(v);
        }
        outs.push(Some((who, r)));
    }
    let snaps: Vec<Vec<u8>> = actors.iter().map(|a| a.snapshot()).collect();
    ctx.probe_if(alternations >= 4, "three_alternations");
    ctx.probe_if(unrelated, "unrelated_instances");
    ctx.probe_if(unrelated && scn.mode == "belt", "belt_unrelated");
    ctx.nontrivial = data_after.iter().filter(|d| **d > 0).count() >= 2;
    let nact = actors.len();
    drop(actors);

    // --- sequential replays on fresh instances: actor a's lineage, nothing else
    for a in 0..nact {
        let mut r = mk(4 + a as u8, second[a]).unwrap();
        for &i in &lineage[a] {
            let op = &scn.ops[i];
            let n = op.n as usize * r.unit();
            let inp = if op.k == "data" { op_input(scn, i, n) } else { Vec::new() };
            let got = r.step(op, &inp, scn.dirt(i, inp.len()));
            let (who, inter) = outs[i].as_ref().unwrap();
            // ops inherited through a clone were physically executed on the ancestor: the replay
            // only has to reach the same state through them
            if *who != a {
                continue;
            }
            if &got != inter {
                let what = match (&got, inter) {
                    (Ok(x), Ok(y)) => format!("outputs differ at byte {} of {}", first_diff(x, y), x.len()),
                    (x, y) => format!("results differ: replay {:?}, interleaved {:?}", x.as_ref().map(|v| v.len()), y.as_ref().map(|v| v.len())),
                };
                violation!(
                    if unrelated { "instances_interfere" } else if a == 0 { "original_affected" } else { "clone_differs" },
                    "op {} ({} n={} via={}) on actor {} ({}): {} (interleaved run vs sequential replay on a fresh instance)",
                    i, op.k, op.n, op.via, a, if a == 0 { "the original" } else if unrelated { "the second instance" } else { "a clone" }, what
                );
            }
        }
        if let (Some(op), Some((who, want, wout))) = (fin.as_ref(), fin_out.as_ref()) {
            if *who == a {
                let i = scn.ops.len() - 1;
                let n = op.n as usize;
                let inp = op_input(scn, i, n);
                for (salt, clause) in [(0usize, "clone_differs"), (977usize, "depends_on_output_buffer")] {
                    let mut out = scn.dirt(i + salt, n);
                    let got = match r.dup() {
                        Some(d) => d.finish_async(op.via, &inp, &mut out),
                        None => None,
                    };
                    if &got != want || (got.is_some() && out != *wout) {
                        violation!(clause, "closing one-shot on {} bytes on actor {}: result differs from the interleaved run{}", n, a, if salt != 0 { " when the output buffer held other bytes before the call" } else { "" });
                    }
                }
            }
        }
        if a == 0 {
            // second replay of the original's lineage into differently pre-filled output buffers
            let mut r2 = mk(7, second[a]).unwrap();
            for &i in &lineage[a] {
                let op = &scn.ops[i];
                let n = op.n as usize * r2.unit();
                let inp = if op.k == "data" { op_input(scn, i, n) } else { Vec::new() };
                let got = r2.step(op, &inp, scn.dirt(i + 4321, inp.len()));
                let (who, inter) = outs[i].as_ref().unwrap();
                if *who == a && &got != inter {
                    violation!("depends_on_output_buffer", "op {} ({} n={} via={}): the result depends on what the output buffer held before the call (same instance history, same input)", i, op.k, op.n, op.via);
                }
            }
            ctx.probe("replayed_with_other_buffer_contents");
        }
        if r.snapshot() != snaps[a] {
            violation!(if a == 0 { "original_state" } else { "clone_state" }, "final observable state of actor {} differs from its sequential replay", a);
        }
    }
    Verdict::Ok
}

/// cts: original and clone are each consumed by one call; both must equal fresh instances
fn exec_cts(scn: &Scn, ctx: &mut Ctx) -> Verdict {
    use crate::factory::{cts_clone_pair, cts_run};
    let bs = scn.bs;
    let (o0, o1) = match (scn.ops.first(), scn.ops.get(1)) {
        (Some(a), Some(b)) if a.k == "cts" && b.k == "cts" => (a, b),
        _ => invalid!("ops"),
    };
    let (na, nb) = (o0.n as usize, o1.n as usize);
    if na < bs || nb < bs || na > 1 << 14 || nb > 1 << 14 {
        invalid!("len");
    }
    let dec = o0.ty % 2 == 1;
    let form = o0.via % 4;
    let clone_first = o1.m % 2 == 1;
    ctx.sig.u(4 << 32 | (dec as u64) << 16 | (form as u64) << 8 | clone_first as u64);
    ctx.probe("cts_clone");
    ctx.nontrivial = true;
    let (a, b) = (scn.bytes(0, na), scn.bytes(na + 7, nb));
    let (mut oa, mut ob) = (scn.dirt(0, na), scn.dirt(1, nb));
    let (ro, rc) = match cts_clone_pair(&scn.mode, bs, scn.cipher, &scn.key, &scn.iv, 0, dec, form, &a, &mut oa, &b, &mut ob, clone_first) {
        Ok(x) => x,
        Err(MkErr::Unsupported) => invalid!("unsupported"),
        Err(_) => violation!("construct", "rejected"),
    };
    let (mut fa, mut fb) = (scn.dirt(0, na), scn.dirt(1, nb));
    let r1 = cts_run(&scn.mode, bs, scn.cipher, &scn.key, &scn.iv, 1, 0, dec, form, &a, &mut fa);
    let r2 = cts_run(&scn.mode, bs, scn.cipher, &scn.key, &scn.iv, 2, 0, dec, form, &b, &mut fb);
    if r1 != Ok(ro) || r2 != Ok(rc) {
        violation!("clone_differs", "{}: results differ between cloned and fresh objects: {:?}/{:?} vs {:?}/{:?}", scn.mode, ro, rc, r1, r2);
    }
    ctx.fp.bytes(&oa);
    if oa != fa {
        violation!("original_affected", "{}: the original (used {} its clone) differs from a fresh object at byte {}", scn.mode, if clone_first { "after" } else { "before" }, first_diff(&oa, &fa));
    }
    if ob != fb {
        violation!("clone_differs", "{}: the clone differs from a fresh object at byte {}", scn.mode, first_diff(&ob, &fb));
    }
    Verdict::Ok
}
