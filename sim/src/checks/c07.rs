//! C07 - output is independent of block batching and of the cipher's parallel width.
//!
//! Twin run, no model.  Instance A (tag 0, width policy pol[0]) is fed through a seeded
//! composition of pieces, each with its own call form:
//!   nums.kind = 0  block modes:  blocks(n, via, p)
//!   nums.kind = 1  stream cores: ks(n, via, p)
//!   nums.kind = 2  cts one-shot: cts(n bytes, via=form, ty=direction)
//! Instance B (tag 1, width fixed to 1) gets the same blocks one at a time, in place.
//! After every piece: A's output so far and A's exported state / block position equal B's.

use super::common::*;
use crate::engine::{CheckDef, Ctx, Verdict};
use crate::factory::{BLOCK_MODES, CTS_MODES, MkErr, STREAM_MODES, cts_run, make_block, make_core};
use crate::obj::{N_VIA, VIA_BLOCK, VIA_SCRIPT, VIA_SCRIPT_B2B, via_single};
use crate::prng::Rng;
use crate::scn::{Op, Scn};
use crate::simcipher::{Policy, env_policy, env_stats};
use crate::sobj::{N_CTS_FORMS, N_KS_VIA};
use crate::{invalid, violation};

pub fn def() -> CheckDef {
    CheckDef {
        id: "C07",
        level: "exploration",
        runs_quick: 600_000,
        runs_thorough: 15_000_000,
        rule: "twin runs of the real code: instance A driven through a seeded composition (k_1..k_m) of n blocks with a call form per piece (single-block forms, *_blocks, *_blocks_inout, *_blocks_b2b, driver scripts mixing single/par/tail backend calls) under a width policy Fixed(w) or flapping per call, w in {1,2,3,5,8}; instance B one block at a time, in place, width 1. All 12 block-mode types, the 8 stream cores, the 6 cts one-shots. distinct = distinct (type, block size, cipher, policy, per-piece form/size-class sequence); non-trivial = >= 1 piece of >= 2 blocks under a width > 1 backend (cts: message > 2 blocks)",
        required_probes: &["width_2", "width_3", "width_5", "par_groups_then_tail", "piece_not_multiple_of_width", "width_changes_between_calls", "script_call", "core_par", "cts_par"],
        r#gen,
        exec,
        components: "real code: all nine crates and cipher's front ends, both twins; stub: block cipher (SimCipher/SimCipherEnc) in most runs, AES-128/Magma/Kuznyechik/BelT in the rest (their width is whatever the host CPU gives); no reference model",
        assumptions: &["toy permutation is a bijection (self-tested)", "cipher/inout/hybrid-array crates trusted", "sampling, not proof"],
        nondet_is_violation: false,
    }
}

fn r#gen(rng: &mut Rng, thorough: bool) -> Scn {
    let kind = match rng.below(10) {
        0..=5 => 0,
        6 | 7 => 1,
        _ => 2,
    };
    let pool = 64 + rng.usize(400);
    let maxops = if thorough { 10 } else { 7 };
    let mut s;
    match kind {
        0 => {
            let mode = *rng.pick(&BLOCK_MODES);
            s = base_scn(rng, "C07", mode, false, 2, pool);
            let w = s.pol[0].max_width() as u64;
            let maxb = if mode.starts_with("cfb8") { 40 } else if s.bs == 255 { 12 } else { 28 };
            for _ in 0..1 + rng.usize(maxops) {
                s.ops.push(Op::new("blocks").n(rng.nblocks(maxb, w)).via(rng.below(N_VIA as u64) as u8).p(rng.next() as u128));
            }
        }
        1 => {
            let mode = *rng.pick(&STREAM_MODES);
            s = base_scn(rng, "C07", mode, false, 2, pool);
            if let Some(fl) = super::c04::flavor_of(mode) {
                s.iv = super::c04::gen_ctr_iv(rng, fl, s.bs);
            }
            let w = s.pol[0].max_width() as u64;
            let maxb = if s.bs > 200 { 12 } else { 28 };
            for _ in 0..1 + rng.usize(maxops) {
                s.ops.push(Op::new("ks").n(rng.nblocks(maxb, w)).via(rng.below(N_KS_VIA as u64) as u8).p(rng.next() as u128));
            }
        }
        _ => {
            let mode = *rng.pick(&CTS_MODES);
            s = base_scn(rng, "C07", mode, true, 2, pool);
            let bs = s.bs as u64;
            let n = bs + rng.nbytes(if bs == 255 { 12 * bs } else { 30 * bs }, bs);
            s.ops.push(Op::new("cts").n(n).via(rng.below(N_CTS_FORMS as u64) as u8).ty(rng.below(2) as u8));
        }
    }
    s.set_num("kind", kind as u128);
    s.pol[1] = Policy::Fixed(1);
    s
}

fn exec(scn: &Scn, ctx: &mut Ctx) -> Verdict {
    env_setup(scn, false);
    env_policy(1, Policy::Fixed(1)); // B is width 1 whatever the scenario says
    sig_base(ctx, scn);
    let kind = scn.num("kind");
    ctx.sig.u(kind as u64);
    let bs = scn.bs;
    let w = scn.pol[0].max_width() as u64;
    let note_width = |ctx: &mut Ctx, st0: &crate::simcipher::SeamStats, st1: &crate::simcipher::SeamStats| {
        ctx.probe_if(st1.width_calls[2] > st0.width_calls[2], "width_2");
        ctx.probe_if(st1.width_calls[3] > st0.width_calls[3], "width_3");
        ctx.probe_if(st1.width_calls[5] > st0.width_calls[5], "width_5");
    };
    match kind {
        0 => {
            if !BLOCK_MODES.contains(&scn.mode.as_str()) {
                invalid!("mode");
            }
            let mk = |tag: u8| make_block(&scn.mode, bs, scn.cipher, &scn.key, &scn.iv, tag, 0);
            let (mut a, mut b) = match (mk(0), mk(1)) {
                (Ok(a), Ok(b)) => (a, b),
                (Err(MkErr::Unsupported), _) => invalid!("unsupported"),
                _ => violation!("construct", "rejected"),
            };
            let g = a.bs();
            let mut off = 0usize;
            let mut last_w = 0u64;
            for (i, op) in scn.ops.iter().enumerate() {
                if op.k != "blocks" {
                    invalid!("op");
                }
                let via = op.via % N_VIA;
                let n = op.n as usize * g;
                if n > 1 << 16 {
                    invalid!("too long");
                }
                ctx.sig.u((via as u64) << 16 | size_class(op.n, w));
                let inp = scn.bytes(off, n);
                let mut oa = scn.dirt(off, n);
                let st0 = env_stats();
                a.proc(via, op.p as u64, &inp, &mut oa);
                let st1 = env_stats();
                note_width(ctx, &st0, &st1);
                let par = st1.par_groups - st0.par_groups;
                let tail = if par > 0 { st1.singles - st0.singles } else { 0 };
                ctx.probe_if(par >= 2 && tail > 0, "par_groups_then_tail");
                ctx.probe_if(par > 0 && tail > 0, "piece_not_multiple_of_width");
                ctx.probe_if(via == VIA_SCRIPT || via == VIA_SCRIPT_B2B, "script_call");
                let cur_w = (1..9).find(|k| st1.width_calls[*k] > st0.width_calls[*k]).unwrap_or(0) as u64;
                ctx.probe_if(last_w != 0 && cur_w != 0 && cur_w != last_w, "width_changes_between_calls");
                if cur_w != 0 {
                    last_w = cur_w;
                }
                ctx.nontrivial |= par > 0 || (op.n >= 2 && !via_single(via));
                let mut ob = vec![0u8; n];
                b.proc(VIA_BLOCK, 0, &inp, &mut ob);
                ctx.fp.bytes(&oa);
                if oa != ob {
                    let d = first_diff(&oa, &ob) / g;
                    violation!("output", "piece {} ({} blocks via {} under {:?}): block {} of the piece differs from block-at-a-time processing: {} vs {}", i, op.n, via, scn.pol[0], d, hexs(&oa[d * g..(d + 1) * g]), hexs(&ob[d * g..(d + 1) * g]));
                }
                let (ea, eb) = (a.export(), b.export());
                if ea != eb {
                    violation!("state", "after piece {} ({} blocks via {}): chaining state {} differs from block-at-a-time state {}", i, op.n, via, hexs(&ea.unwrap_or_default()), hexs(&eb.unwrap_or_default()));
                }
                off += n;
            }
            Verdict::Ok
        }
        1 => {
            if !STREAM_MODES.contains(&scn.mode.as_str()) {
                invalid!("mode");
            }
            let mk = |tag: u8| make_core(&scn.mode, bs, scn.cipher, &scn.key, &scn.iv, tag, 0);
            let (mut a, mut b) = match (mk(0), mk(1)) {
                (Ok(a), Ok(b)) => (a, b),
                (Err(MkErr::Unsupported), _) => invalid!("unsupported"),
                _ => violation!("construct", "rejected"),
            };
            let mut off = 0usize;
            for (i, op) in scn.ops.iter().enumerate() {
                if op.k != "ks" {
                    invalid!("op");
                }
                let via = op.via % N_KS_VIA;
                let n = op.n as usize * bs;
                if n > 1 << 16 {
                    invalid!("too long");
                }
                ctx.sig.u((via as u64) << 16 | size_class(op.n, w));
                let inp = scn.bytes(off, n);
                let mut oa = scn.dirt(off, n);
                let st0 = env_stats();
                a.ks(via, op.p as u64, &inp, &mut oa);
                let st1 = env_stats();
                note_width(ctx, &st0, &st1);
                let par = st1.par_groups - st0.par_groups;
                ctx.probe_if(par > 0, "core_par");
                ctx.probe_if(via == 6, "script_call");
                ctx.nontrivial |= par > 0;
                let mut ob = vec![0u8; n];
                b.ks(2, 0, &inp, &mut ob);
                ctx.fp.bytes(&oa);
                if oa != ob {
                    let d = first_diff(&oa, &ob) / bs;
                    violation!("output", "piece {} ({} blocks via {} under {:?}): keystream block {} of the piece differs from block-at-a-time generation", i, op.n, via, scn.pol[0], d);
                }
                if a.get_pos() != b.get_pos() {
                    violation!("state", "after piece {}: block position {:?} vs {:?}", i, a.get_pos(), b.get_pos());
                }
                let (ea, eb) = (a.export(), b.export());
                if ea != eb {
                    violation!("state", "after piece {} ({} blocks via {}): exported state {} differs from block-at-a-time state {}", i, op.n, via, hexs(&ea.unwrap_or_default()), hexs(&eb.unwrap_or_default()));
                }
                off += n;
            }
            Verdict::Ok
        }
        _ => {
            let op = match scn.ops.first() {
                Some(o) if o.k == "cts" => o,
                _ => invalid!("op"),
            };
            let n = op.n as usize;
            if n < bs || n > 1 << 16 {
                invalid!("length");
            }
            let form = op.via % N_CTS_FORMS;
            let dec = op.ty % 2 == 1;
            ctx.sig.u((form as u64) << 20 | (dec as u64) << 16 | ((n % bs) as u64) << 4 | (n / bs).min(3) as u64);
            let inp = scn.bytes(0, n);
            let mut oa = scn.dirt(0, n);
            let st0 = env_stats();
            let ra = cts_run(&scn.mode, bs, scn.cipher, &scn.key, &scn.iv, 0, 0, dec, form, &inp, &mut oa);
            let st1 = env_stats();
            note_width(ctx, &st0, &st1);
            ctx.probe_if(st1.par_groups > st0.par_groups, "cts_par");
            ctx.nontrivial |= st1.par_groups > st0.par_groups;
            let mut ob = vec![0u8; n];
            let rb = cts_run(&scn.mode, bs, scn.cipher, &scn.key, &scn.iv, 1, 0, dec, 0, &inp, &mut ob);
            match (ra, rb) {
                (Err(MkErr::Unsupported), _) | (_, Err(MkErr::Unsupported)) => invalid!("unsupported"),
                (Ok(Ok(())), Ok(Ok(()))) => {}
                (x, y) => violation!("result", "cts call on {} bytes returned {:?} under {:?} but {:?} at width 1", n, x, scn.pol[0], y),
            }
            ctx.fp.bytes(&oa);
            if oa != ob {
                let d = first_diff(&oa, &ob);
                violation!("output", "{} {} of {} bytes (form {}) under {:?}: byte {} differs from the width-1 result", scn.mode, if dec { "decrypt" } else { "encrypt" }, n, form, scn.pol[0], d);
            }
            Verdict::Ok
        }
    }
}
