//! generator and executor helpers shared by the checks

use crate::engine::Ctx;
use crate::factory::{CK, ciphers_for, iv_len, sizes_for};
use crate::model::Prim;
use crate::prng::Rng;
use crate::scn::Scn;
use crate::simcipher::{self, Policy, WIDTHS};

pub fn pick_policy(rng: &mut Rng) -> Policy {
    match rng.below(10) {
        0 | 1 => Policy::Fixed(1),
        2..=6 => Policy::Fixed(*rng.pick(&WIDTHS[1..])),
        _ => {
            // a random subset of at least two widths, flapping per call
            let mut v: Vec<u8> = WIDTHS.iter().copied().filter(|_| rng.chance(1, 2)).collect();
            if v.len() < 2 {
                v = vec![1, *rng.pick(&WIDTHS[1..])];
            }
            Policy::Flap(v)
        }
    }
}

pub fn pick_bs(rng: &mut Rng, mode: &str) -> usize {
    let s = sizes_for(mode);
    // 16 a bit more often so that real ciphers get their share
    if s.contains(&16) && rng.chance(1, 4) { 16 } else { *rng.pick(s) }
}

pub fn pick_cipher(rng: &mut Rng, mode: &str, bs: usize, need_dec: bool) -> CK {
    let all: Vec<CK> = ciphers_for(mode, bs).into_iter().filter(|c| !need_dec || c.has_dec()).collect();
    assert!(!all.is_empty(), "harness: no cipher for {} bs={}", mode, bs);
    let real: Vec<CK> = all.iter().copied().filter(|c| c.real_bs().is_some()).collect();
    let toy: Vec<CK> = all.iter().copied().filter(|c| c.real_bs().is_none()).collect();
    if toy.is_empty() || (!real.is_empty() && rng.chance(1, 6)) {
        *rng.pick(&real)
    } else if toy.len() > 1 && rng.chance(1, 4) {
        toy[1]
    } else {
        toy[0]
    }
}

pub fn gen_iv(rng: &mut Rng, n: usize) -> Vec<u8> {
    match rng.below(8) {
        0 => vec![0; n],
        1 => vec![0xff; n],
        _ => rng.bytes(n),
    }
}

/// common scenario skeleton: mode/bs/cipher/key/iv/policies/data pool
pub fn base_scn(rng: &mut Rng, check: &str, mode: &str, need_dec: bool, parties: usize, pool: usize) -> Scn {
    let bs = pick_bs(rng, mode);
    let ck = pick_cipher(rng, mode, bs, need_dec);
    let mut s = Scn::new(check, mode, bs, ck);
    s.key = rng.bytes(ck.key_len());
    s.iv = gen_iv(rng, iv_len(mode, bs));
    if let Some(fl) = super::c04::flavor_of(mode) {
        // counter fields at the interesting values (0, 2^k-1, all-ones, low half all-ones, ...)
        s.iv = super::c04::gen_ctr_iv(rng, fl, bs);
    } else if mode == "belt" && ck.has_dec() && rng.chance(1, 2) {
        // BelT-CTR: choose IV = D(target) so that the 128-bit state s = E(IV) sits next to a carry
        let target: u128 = match rng.below(4) {
            0 | 1 => u128::MAX - rng.below(48) as u128,
            2 => (rng.u128() << 64) | (u64::MAX - rng.below(48)) as u128,
            _ => (rng.u128() << 32) | (u32::MAX as u128 - rng.below(48) as u128),
        };
        let mut b = target.to_le_bytes().to_vec();
        crate::factory::prim_dec(ck, &s.key, &mut b);
        s.iv = b;
    }
    s.pol = (0..parties).map(|_| pick_policy(rng)).collect();
    s.env_seed = rng.next();
    s.data = rng.data(pool.max(1));
    s
}

/// start of every executor: the seam is reset from the scenario alone
pub fn env_setup(scn: &Scn, trace: bool) {
    simcipher::env_reset(scn.env_seed);
    for (t, p) in scn.pol.iter().enumerate() {
        simcipher::env_policy(t as u8, p.clone());
    }
    simcipher::env_trace(trace);
}

pub fn sig_base(ctx: &mut Ctx, scn: &Scn) {
    ctx.sig.s(&scn.mode);
    ctx.sig.u(scn.bs as u64);
    ctx.sig.s(scn.cipher.name());
    for p in &scn.pol {
        ctx.sig.s(&format!("{:?}", p));
    }
}

pub fn size_class(n: u64, w: u64) -> u64 {
    if n <= 2 {
        n
    } else if w > 1 && n % w == 0 {
        100 + (n / w).min(3)
    } else if w > 1 && n > w {
        200 + (n / w).min(3)
    } else {
        3
    }
}

/// model primitive for a scenario's cipher
pub fn with_prim<R>(scn: &Scn, f: impl FnOnce(&Prim) -> R) -> R {
    let ck = scn.cipher;
    let key = scn.key.clone();
    let key2 = scn.key.clone();
    let e = move |b: &mut [u8]| crate::factory::prim_enc(ck, &key, b);
    let d = move |b: &mut [u8]| crate::factory::prim_dec(ck, &key2, b);
    let p = Prim { bs: scn.bs, e: &e, d: &d };
    f(&p)
}

pub fn hexs(b: &[u8]) -> String {
    let n = b.len().min(40);
    let mut s = crate::json::hex(&b[..n]);
    if b.len() > n {
        s.push_str("..");
    }
    s
}

pub fn first_diff(a: &[u8], b: &[u8]) -> usize {
    a.iter().zip(b.iter()).position(|(x, y)| x != y).unwrap_or(a.len().min(b.len()))
}

#[macro_export]
macro_rules! violation {
    ($clause:expr, $($arg:tt)*) => {
        return $crate::engine::Verdict::Violation { clause: $clause.to_string(), detail: format!($($arg)*) }
    };
}
#[macro_export]
macro_rules! invalid {
    ($($arg:tt)*) => {
        return $crate::engine::Verdict::Invalid(format!($($arg)*))
    };
}

use crate::engine::Verdict;
use crate::factory::{MkErr, make_block};
use crate::obj::{N_VIA, VIA_SCRIPT, VIA_SCRIPT_B2B};

/// Conformance driver shared by C02 and C03: a history of
///   blocks(n, via, p=script seed) | restart | clone | async(n bytes, via=3..5; last op only)
/// on one block-mode object, compared step by step with `model(scn, input) -> (output, chaining)`.
/// `enc_only`: additionally demand that no decrypt-direction block crosses the cipher seam
/// during data processing.
pub fn block_history(scn: &Scn, ctx: &mut Ctx, model: &dyn Fn(&Scn, &[u8]) -> (Vec<u8>, Vec<u8>), enc_only: bool) -> Verdict {
    env_setup(scn, enc_only);
    let mut obj = match make_block(&scn.mode, scn.bs, scn.cipher, &scn.key, &scn.iv, 0, 0) {
        Ok(o) => o,
        Err(MkErr::Unsupported) => invalid!("unsupported combination"),
        Err(MkErr::Rejected) => violation!("construct", "inner_iv_init path rejected a correct key/iv"),
    };
    let g = obj.bs(); // data granularity (1 for CFB-8)
    let units: usize = scn.ops.iter().filter(|o| o.k == "blocks").map(|o| o.n as usize).sum();
    let tailbytes: usize = scn.ops.iter().filter(|o| o.k == "async" || o.k == "padded").map(|o| o.n as usize).sum();
    if units > 4096 || tailbytes > 65536 {
        invalid!("too long");
    }
    if let Some(i) = scn.ops.iter().position(|o| o.k == "async" || o.k == "padded") {
        if i + 1 != scn.ops.len() {
            invalid!("a consuming one-shot must be the last operation");
        }
    }
    let mut input = scn.bytes(0, units * g + tailbytes);
    let honest = scn.num("honest");
    if scn.mode.ends_with("dec") && honest > 0 && !input.is_empty() {
        // an honest ciphertext of the pool data, produced by the *model* (it is only input here)
        let mut s2 = scn.clone();
        s2.mode = scn.mode.replace("dec", "enc");
        input = model(&s2, &input).0;
        if honest == 2 {
            let bit = scn.num("flip") as usize % (input.len() * 8);
            input[bit / 8] ^= 1 << (bit % 8);
            ctx.fault("ciphertext_bit_flip");
        }
    } else if scn.mode.ends_with("dec") {
        ctx.probe("dishonest_ciphertext");
    }
    // the model runs over the whole blocks (and an async tail); a closing padded message is
    // modelled separately, after padding
    let padded_bytes: usize = scn.ops.iter().filter(|o| o.k == "padded").map(|o| o.n as usize).sum();
    let (want, _) = model(scn, &input[..input.len() - padded_bytes]);
    sig_base(ctx, scn);
    ctx.probe_if(scn.bs == 1, "bs1");
    ctx.probe_if(scn.bs == 255, "bs255");
    ctx.probe_if(scn.cipher == crate::factory::CK::SimEnc, "enc_only_cipher");
    let mut done = 0usize; // bytes
    let w = scn.pol[0].max_width() as u64;
    for (i, op) in scn.ops.iter().enumerate() {
        ctx.sig.s(&op.k);
        let mut last_tail = false;
        let mark = crate::simcipher::env_mark();
        match op.k.as_str() {
            "blocks" => {
                let n = op.n as usize * g;
                let via = op.via % N_VIA;
                ctx.sig.u(via as u64);
                ctx.sig.u(size_class(op.n, w));
                let inp = &input[done..done + n];
                let mut out = scn.dirt(done, n);
                let st0 = crate::simcipher::env_stats();
                obj.proc(via, op.p as u64, inp, &mut out);
                let st1 = crate::simcipher::env_stats();
                ctx.fp.bytes(&out);
                let par = st1.par_groups - st0.par_groups;
                // the modes do not forward tail calls: a tail shows up as single blocks after parallel groups
                let tail = if par > 0 { st1.singles - st0.singles } else { 0 };
                ctx.probe_if(par >= 2 && tail > 0, "par_groups_then_tail");
                ctx.probe_if(par > 0, "par_group");
                ctx.probe_if(via == VIA_SCRIPT || via == VIA_SCRIPT_B2B, "script_call");
                last_tail = tail > 0;
                if n > 0 {
                    ctx.nontrivial = true;
                }
                let exp = &want[done..done + n];
                if out != exp {
                    let d = first_diff(&out, exp) / g;
                    violation!(
                        "output",
                        "op {} ({} blocks via {}): output differs from the recurrence at block {} of the call (stream block {}): got {} want {}",
                        i, op.n, via, d, done / g + d, hexs(&out[d * g..(d + 1) * g]), hexs(&exp[d * g..(d + 1) * g])
                    );
                }
                done += n;
            }
            "restart" => {
                if let Some(st) = obj.export() {
                    drop(obj);
                    obj = match make_block(&scn.mode, scn.bs, scn.cipher, &scn.key, &st, 0, 0) {
                        Ok(o) => o,
                        Err(_) => violation!("restart", "exported state of length {} rejected by inner_iv_init", st.len()),
                    };
                    ctx.probe("restart");
                    ctx.fault("restart_from_exported_state");
                }
            }
            "clone" => {
                let c = obj.dup();
                drop(obj);
                obj = c;
                ctx.probe("clone");
            }
            "padded" => {
                // closing padded one-shot of an encryptor: the mode's recurrence over the padded message
                if !obj.is_enc() || g != scn.bs {
                    invalid!("padded conformance is checked on block encryptors");
                }
                let n = op.n as usize;
                let pad = op.ty % 5;
                let mut kind = op.via % 3;
                let msg = input[done..done + n].to_vec();
                let padded = crate::model::pad(pad, g, &msg);
                if kind == 2 && padded.is_none() {
                    kind = 1; // encrypt_padded_vec::<NoPadding> on a partial block: recorded finding KF-2 (C13)
                }
                ctx.sig.u((kind as u64) << 16 | (pad as u64) << 8 | ((n % g != 0) as u64) << 4 | (n / g).min(3) as u64);
                ctx.probe("padded_one_shot");
                let mut out = scn.dirt(done, n + g + 1);
                let r = obj.finish(kind, pad, &msg, &mut out);
                match (padded, r) {
                    (None, Err(())) => {}
                    (None, Ok(l)) => violation!("padded", "op {}: NoPadding accepted a {}-byte message (block size {}) and returned {} bytes", i, n, g, l),
                    (Some(p), Ok(l)) => {
                        // chaining value before the one-shot: the model's state after `done` bytes
                        let (_, chain) = model(scn, &input[..done]);
                        let mut s2 = scn.clone();
                        s2.iv = chain;
                        let (want, _) = model(&s2, &p);
                        if l != want.len() || out[..l] != want[..] {
                            violation!("padded", "op {}: encrypt_padded (form {}, {}) of {} bytes after {} blocks: {} bytes returned, expected the recurrence over the padded message ({} bytes); first difference at byte {}", i, kind, crate::obj::PADS[pad as usize], n, done / g, l, want.len(), first_diff(&out[..l.min(want.len())], &want));
                        }
                    }
                    (Some(p), Err(())) => violation!("padded", "op {}: encrypt_padded (form {}, {}) of {} bytes failed although {} output bytes were available for {} padded bytes", i, kind, crate::obj::PADS[pad as usize], n, n + g + 1, p.len()),
                }
                ctx.nontrivial = true;
                return Verdict::Ok;
            }
            "async" => {
                if !obj.has_async() {
                    invalid!("no async interface");
                }
                let n = op.n as usize;
                let kind = 3 + op.via % 3;
                ctx.sig.u(kind as u64);
                ctx.sig.u(((n % g.max(scn.bs) != 0) as u64) << 8 | (n / scn.bs.max(1)).min(3) as u64);
                let inp = input[done..done + n].to_vec();
                let mut out = scn.dirt(done, n);
                let r = obj.finish(kind, 0, &inp, &mut out);
                ctx.probe_if(n % scn.bs != 0, "async_partial_tail");
                ctx.nontrivial |= n > 0;
                if r != Ok(n) {
                    violation!("async_len", "op {}: async one-shot on {} bytes returned {:?}", i, n, r);
                }
                ctx.fp.bytes(&out);
                let exp = &want[done..done + n];
                if out != exp {
                    let d = first_diff(&out, exp);
                    violation!("output", "op {} (async kind {} on {} bytes): byte {} differs: got {} want {}", i, kind, n, d, hexs(&out[d..]), hexs(&exp[d..]));
                }
                if enc_only {
                    if let Some((ev, _)) = crate::simcipher::env_events(mark).iter().find(|(e, _)| e.dir == crate::simcipher::DEC) {
                        violation!("decrypt_direction", "op {} (async): a block crossed the cipher seam in the decrypt direction (path {})", i, ev.path);
                    }
                }
                return Verdict::Ok;
            }
            _ => invalid!("op kind {}", op.k),
        }
        if enc_only && op.k != "blocks" {
            // exporting CFB's state legitimately uses D once: only data processing is constrained
            crate::simcipher::env_clear_trace();
        } else if enc_only {
            if let Some((ev, _)) = crate::simcipher::env_events(mark).iter().find(|(e, _)| e.dir == crate::simcipher::DEC) {
                violation!("decrypt_direction", "op {} ({}): a block crossed the cipher seam in the decrypt direction (path {})", i, op.k, ev.path);
            }
            crate::simcipher::env_clear_trace();
        }
        // chaining value after every operation (export itself is outside the seam window)
        if let Some(st) = obj.export() {
            let (_, chain) = model(scn, &input[..done]);
            ctx.fp.bytes(&st);
            ctx.probe_if(last_tail, "state_after_tail");
            if st != chain {
                violation!("state", "after op {} ({}): iv_state {} != model chaining value {} after {} blocks", i, op.k, hexs(&st), hexs(&chain), done / g);
            }
        }
        if enc_only {
            crate::simcipher::env_clear_trace();
        }
    }
    Verdict::Ok
}

use crate::obj::BlockObj;
use crate::scn::Op;

/// feed `data` (whole units of obj.bs()) to a block object through the piece list `ops`
/// (only ops with k == "blocks" and who == `who`), used cyclically; a piece of size 0 in the
/// list is executed once (as an empty call) and then skipped.  Returns the output.
pub fn drive_pieces(obj: &mut dyn BlockObj, data: &[u8], ops: &[Op], who: u8, scn: &Scn, ctx: &mut Ctx) -> Vec<u8> {
    let g = obj.bs();
    assert!(data.len() % g == 0, "harness: drive_pieces needs whole blocks");
    let pieces: Vec<&Op> = ops.iter().filter(|o| o.k == "blocks" && o.who == who).collect();
    let mut out = Vec::with_capacity(data.len());
    let mut done = 0usize;
    let mut i = 0usize;
    let mut zero_budget = pieces.len();
    while done < data.len() || (i < pieces.len() && zero_budget > 0) {
        let (n, via, seed) = if pieces.is_empty() {
            ((data.len() - done) / g, crate::obj::VIA_BLOCKS, 0u64)
        } else {
            let p = pieces[i % pieces.len()];
            (p.n as usize, p.via % N_VIA, p.p as u64 ^ (i as u64))
        };
        i += 1;
        let n = n.min((data.len() - done) / g);
        if n == 0 {
            if zero_budget == 0 {
                // only empty pieces left in the cycle: finish with one multi-block call
                let rest = data.len() - done;
                if rest == 0 {
                    break;
                }
                let mut o = scn.dirt(done, rest);
                obj.proc(crate::obj::VIA_BLOCKS, 0, &data[done..], &mut o);
                out.extend(o);
                break;
            }
            zero_budget -= 1;
            if done >= data.len() && i >= pieces.len() {
                break;
            }
        } else {
            zero_budget = pieces.len();
        }
        ctx.sig.u((who as u64) << 40 | (via as u64) << 32 | n.min(40) as u64);
        let mut o = scn.dirt(done, n * g);
        obj.proc(via, seed, &data[done..done + n * g], &mut o);
        out.extend(o);
        done += n * g;
        if done >= data.len() && i >= pieces.len() {
            break;
        }
    }
    out
}
