//! generator and executor helpers shared by the checks

use crate::engine::Ctx;
use crate::factory::{CK, ciphers_for, iv_len, sizes_for};
use crate::model::Prim;
use crate::prng::Rng;
use crate::scn::Scn;
use crate::simcipher::{self, Policy, WIDTHS};

pub fn pick_policy(rng: &mut Rng) -> Policy {
    match rng.below(10) {
        0 | 1 => Policy::Fixed(1),
        2..=6 => Policy::Fixed(*rng.pick(&WIDTHS[1..])),
        _ => {
            // a random subset of at least two widths, flapping per call
            let mut v: Vec<u8> = WIDTHS.iter().copied().filter(|_| rng.chance(1, 2)).collect();
            if v.len() < 2 {
                v = vec![1, *rng.pick(&WIDTHS[1..])];
            }
            Policy::Flap(v)
        }
    }
}

pub fn pick_bs(rng: &mut Rng, mode: &str) -> usize {
    let s = sizes_for(mode);
    // 16 a bit more often so that real ciphers get their share
    if s.contains(&16) && rng.chance(1, 4) { 16 } else { *rng.pick(s) }
}

pub fn pick_cipher(rng: &mut Rng, mode: &str, bs: usize, need_dec: bool) -> CK {
    let all: Vec<CK> = ciphers_for(mode, bs).into_iter().filter(|c| !need_dec || c.has_dec()).collect();
    assert!(!all.is_empty(), "harness: no cipher for {} bs={}", mode, bs);
    let real: Vec<CK> = all.iter().copied().filter(|c| c.real_bs().is_some()).collect();
    let toy: Vec<CK> = all.iter().copied().filter(|c| c.real_bs().is_none()).collect();
    if toy.is_empty() || (!real.is_empty() && rng.chance(1, 6)) {
        *rng.pick(&real)
    } else if toy.len() > 1 && rng.chance(1, 4) {
        toy[1]
    } else {
        toy[0]
    }
}

pub fn gen_iv(rng: &mut Rng, n: usize) -> Vec<u8> {
    match rng.below(8) {
        0 => vec![0; n],
        1 => vec![0xff; n],
        _ => rng.bytes(n),
    }
}

/// common scenario skeleton: mode/bs/cipher/key/iv/policies/data pool
pub fn base_scn(rng: &mut Rng, check: &str, mode: &str, need_dec: bool, parties: usize, pool: usize) -> Scn {
    let bs = pick_bs(rng, mode);
    let ck = pick_cipher(rng, mode, bs, need_dec);
    let mut s = Scn::new(check, mode, bs, ck);
    s.key = rng.bytes(ck.key_len());
    s.iv = gen_iv(rng, iv_len(mode, bs));
    s.pol = (0..parties).map(|_| pick_policy(rng)).collect();
    s.env_seed = rng.next();
    s.data = rng.data(pool.max(1));
    s
}

/// start of every executor: the seam is reset from the scenario alone
pub fn env_setup(scn: &Scn, trace: bool) {
    simcipher::env_reset(scn.env_seed);
    for (t, p) in scn.pol.iter().enumerate() {
        simcipher::env_policy(t as u8, p.clone());
    }
    simcipher::env_trace(trace);
}

pub fn sig_base(ctx: &mut Ctx, scn: &Scn) {
    ctx.sig.s(&scn.mode);
    ctx.sig.u(scn.bs as u64);
    ctx.sig.s(scn.cipher.name());
    for p in &scn.pol {
        ctx.sig.s(&format!("{:?}", p));
    }
}

pub fn size_class(n: u64, w: u64) -> u64 {
    if n <= 2 {
        n
    } else if w > 1 && n % w == 0 {
        100 + (n / w).min(3)
    } else if w > 1 && n > w {
        200 + (n / w).min(3)
    } else {
        3
    }
}

/// model primitive for a scenario's cipher
pub fn with_prim<R>(scn: &Scn, f: impl FnOnce(&Prim) -> R) -> R {
    let ck = scn.cipher;
    let key = scn.key.clone();
    let key2 = scn.key.clone();
    let e = move |b: &mut [u8]| crate::factory::prim_enc(ck, &key, b);
    let d = move |b: &mut [u8]| crate::factory::prim_dec(ck, &key2, b);
    let p = Prim { bs: scn.bs, e: &e, d: &d };
    f(&p)
}

pub fn hexs(b: &[u8]) -> String {
    let n = b.len().min(40);
    let mut s = crate::json::hex(&b[..n]);
    if b.len() > n {
        s.push_str("..");
    }
    s
}

pub fn first_diff(a: &[u8], b: &[u8]) -> usize {
    a.iter().zip(b.iter()).position(|(x, y)| x != y).unwrap_or(a.len().min(b.len()))
}

#[macro_export]
macro_rules! violation {
    ($clause:expr, $($arg:tt)*) => {
        return $crate::engine::Verdict::Violation { clause: $clause.to_string(), detail: format!($($arg)*) }
    };
}
#[macro_export]
macro_rules! invalid {
    ($($arg:tt)*) => {
        return $crate::engine::Verdict::Invalid(format!($($arg)*))
    };
}
