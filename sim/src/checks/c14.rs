//! C14 - alternative front ends to the same mode are interchangeable ("replicas never diverge").
//!
//! Several front ends process one logical stream (same key, IV, data), each under its own
//! schedule; outputs must agree pairwise.  Partial fit (DESIGN section 2).  nums.fam selects:
//!   0 CFB   buffered (bytes(n)@0 pieces) vs one-shot (async, form fin.via) vs block level on the
//!           whole-block prefix (blocks(n,via,p)@1 pieces); both directions (nums.dec)
//!   1 OFB   OfbCore as block encryptor, as block decryptor, as keystream core and the Ofb byte
//!           stream (chunked): one and the same function
//!   2 CTR/BelT core driven block-wise (ks(n,via,p)@1) vs the byte-level alias (apply(n,form)@0)
//!   3 cts on a whole number of blocks vs plain CBC / raw block encryption (CS3: last two blocks
//!           exchanged; a one-block message is one whole block: nothing to exchange)
//!   4 construction: KeyIvInit::new(key, iv), new_from_slices, inner_iv_slice_init vs
//!           inner_iv_init(C::new(key), iv), then the same short history

use super::common::*;
use crate::engine::{CheckDef, Ctx, Verdict};
use crate::factory::*;
use crate::obj::{N_VIA, VIA_BLOCKS};
use crate::prng::Rng;
use crate::scn::{Op, Scn};
use crate::sobj::{N_APPLY_FORMS, N_CTS_FORMS, N_KS_VIA};
use crate::{invalid, violation};

pub fn def() -> CheckDef {
    CheckDef {
        id: "C14",
        level: "exploration",
        runs_quick: 800_000,
        runs_thorough: 20_000_000,
        rule: "replica agreement between front ends of one mode, each replica under its own seeded schedule and width policy: buffered vs one-shot vs block-level CFB (both directions); OfbCore as encryptor / decryptor / keystream core / Ofb byte stream; CtrCore and BeltCtrCore block-wise vs the byte-level aliases; the six cts types on whole blocks vs cbc::Encryptor/Decryptor resp. the cipher's raw block calls; four ways of constructing every type. distinct = distinct (family, mode, block size, cipher, policies, schedules); non-trivial = >= 1 byte compared",
        required_probes: &["cfb_three_way", "ofb_four_way", "ctr_core_vs_alias", "belt_core_vs_alias", "cts_one_block", "cts_cs3_swap", "ctor_new", "ctor_slices", "ctor_inner_slice", "core_one_shot_vs_alias", "ctor_then_seek", "core_walks_to_start", "rewind_vs_fresh_core"],
        r#gen,
        exec,
        components: "real code on every replica (all nine crates + cipher's front ends); stub: block cipher in most runs (raw block calls of the stub stand for 'raw block encryption'), real ciphers in the rest; no reference model",
        assumptions: &["toy permutation is a bijection (self-tested)", "sampling, not proof"],
        nondet_is_violation: false,
    }
}

fn r#gen(rng: &mut Rng, thorough: bool) -> Scn {
    let fam = rng.below(5);
    let pool = 64 + rng.usize(500);
    let maxp = if thorough { 6 } else { 4 };
    let mut s;
    match fam {
        0 => {
            s = base_scn(rng, "C14", "cfb.enc", false, 3, pool);
            let bs = s.bs as u64;
            s.set_num("dec", rng.below(2) as u128);
            s.set_num("len", rng.nbytes(10 * bs, bs) as u128);
            for _ in 0..1 + rng.usize(maxp) {
                s.ops.push(Op::new("bytes").who(0).n(rng.nbytes(4 * bs, bs)));
                s.ops.push(Op::new("blocks").who(1).n(rng.nblocks(8, s.pol[1].max_width() as u64)).via(rng.below(N_VIA as u64) as u8).p(rng.next() as u128));
            }
            s.ops.push(Op::new("fin").via(rng.below(3) as u8));
        }
        1 => {
            s = base_scn(rng, "C14", "ofb", false, 4, pool);
            let bs = s.bs as u64;
            s.set_num("blocks", rng.nblocks(if bs == 255 { 8 } else { 20 }, 8) as u128);
            s.set_num("tail", rng.below(bs) as u128);
            for _ in 0..1 + rng.usize(maxp) {
                s.ops.push(Op::new("blocks").who(0).n(rng.nblocks(8, 8)).via(rng.below(N_VIA as u64) as u8).p(rng.next() as u128));
                s.ops.push(Op::new("blocks").who(1).n(rng.nblocks(8, 8)).via(rng.below(N_VIA as u64) as u8).p(rng.next() as u128));
                s.ops.push(Op::new("ks").who(2).n(rng.nblocks(8, 8)).via(rng.below(N_KS_VIA as u64) as u8).p(rng.next() as u128));
                s.ops.push(Op::new("apply").who(3).n(rng.nbytes(4 * bs, bs)).via(rng.below(N_APPLY_FORMS as u64) as u8));
            }
        }
        2 => {
            let mode = *rng.pick(&["ctr32be", "ctr32le", "ctr64be", "ctr64le", "ctr128be", "ctr128le", "belt", "belt"]);
            s = base_scn(rng, "C14", mode, false, 2, pool);
            if let Some(fl) = super::c04::flavor_of(mode) {
                s.iv = super::c04::gen_ctr_iv(rng, fl, s.bs);
            }
            let bs = s.bs as u64;
            s.set_num("blocks", rng.nblocks(if bs > 200 { 8 } else { 20 }, 8) as u128);
            s.set_num("startblk", match rng.below(6) { 0 | 1 => rng.below(1 << 20), 2 => rng.below(200), _ => 0 } as u128);
            s.set_num("corewalk", rng.below(2) as u128);
            s.set_num("tailbytes", if rng.chance(1, 2) { rng.nbytes(5 * bs, bs) } else { 0 } as u128);
            for _ in 0..1 + rng.usize(maxp) {
                s.ops.push(Op::new("apply").who(0).n(rng.nbytes(4 * bs, bs)).via(rng.below(N_APPLY_FORMS as u64) as u8));
                s.ops.push(Op::new("ks").who(1).n(rng.nblocks(8, 8)).via(rng.below(N_KS_VIA as u64) as u8).p(rng.next() as u128));
            }
        }
        3 => {
            let mode = *rng.pick(&CTS_MODES);
            s = base_scn(rng, "C14", mode, true, 2, pool);
            let nb = match rng.below(6) {
                0 | 1 => 1,
                2 => 2,
                _ => 1 + rng.below(if s.bs == 255 { 8 } else { 20 }),
            };
            s.set_num("blocks", nb as u128);
            s.set_num("dec", rng.below(2) as u128);
            s.ops.push(Op::new("cts").via(rng.below(N_CTS_FORMS as u64) as u8));
            for _ in 0..1 + rng.usize(maxp) {
                s.ops.push(Op::new("blocks").who(1).n(rng.nblocks(8, 8)).via(rng.below(N_VIA as u64) as u8).p(rng.next() as u128));
            }
        }
        _ => {
            let group = rng.below(4);
            let mode: &str = match group {
                0 => *rng.pick(&BLOCK_MODES),
                1 => *rng.pick(&STREAM_MODES),
                2 => *rng.pick(&BUF_MODES),
                _ => *rng.pick(&CTS_MODES),
            };
            s = base_scn(rng, "C14", mode, group == 3, 2, pool);
            if let Some(fl) = super::c04::flavor_of(mode) {
                s.iv = super::c04::gen_ctr_iv(rng, fl, s.bs);
            }
            // both replicas at the same fixed width: only the constructor differs
            s.pol[1] = s.pol[0].clone();
            s.set_num("group", group as u128);
            s.set_num("ctor", 1 + rng.below(3) as u128);
            s.set_num("len", (s.bs as u64 + rng.nbytes(6 * s.bs as u64, s.bs as u64)) as u128);
            s.set_num("dec", rng.below(2) as u128);
        }
    }
    s.set_num("fam", fam as u128);
    s
}

fn exec(scn: &Scn, ctx: &mut Ctx) -> Verdict {
    env_setup(scn, false);
    sig_base(ctx, scn);
    let fam = scn.num("fam");
    ctx.sig.u(fam as u64);
    let bs = scn.bs;
    let mkerr = |e: MkErr| -> Verdict {
        match e {
            MkErr::Unsupported => Verdict::Invalid("unsupported".into()),
            MkErr::Rejected => Verdict::Violation { clause: "construct".into(), detail: "constructor rejected correct key/iv".into() },
        }
    };
    macro_rules! mk {
        ($e:expr) => {
            match $e {
                Ok(o) => o,
                Err(e) => return mkerr(e),
            }
        };
    }
    match fam {
        0 => {
            let dec = scn.num("dec") == 1;
            let len = scn.num("len") as usize;
            if len > 1 << 16 {
                invalid!("len");
            }
            let (bm, fm) = if dec { ("cfb.dec", "cfb.bufdec") } else { ("cfb.enc", "cfb.bufenc") };
            let msg = scn.bytes(0, len);
            // replica 0: buffered, chunked
            let mut r0 = mk!(make_buf(fm, bs, scn.cipher, &scn.key, &scn.iv, 0, 0, None));
            let mut o0 = msg.clone();
            let ps: Vec<&Op> = scn.ops.iter().filter(|o| o.k == "bytes").collect();
            let (mut done, mut i) = (0usize, 0usize);
            while done < len {
                let n = if ps.is_empty() || i >= 4 * ps.len() { len - done } else { (ps[i % ps.len()].n as usize).min(len - done) };
                i += 1;
                ctx.sig.u(n.min(2000) as u64);
                r0.proc(&mut o0[done..done + n]);
                done += n;
            }
            // replica 1: block level on the whole-block prefix
            let mut r1 = mk!(make_block(bm, bs, scn.cipher, &scn.key, &scn.iv, 1, 0));
            let whole = len / bs * bs;
            let o1 = drive_pieces(r1.as_mut(), &msg[..whole], &scn.ops, 1, scn, ctx);
            // replica 2: one-shot
            let r2 = mk!(make_block(bm, bs, scn.cipher, &scn.key, &scn.iv, 2, 0));
            let kind = 3 + scn.ops.iter().find(|o| o.k == "fin").map(|o| o.via % 3).unwrap_or(0);
            let mut o2 = scn.dirt(3, len);
            if r2.finish(kind, 0, &msg, &mut o2) != Ok(len) {
                violation!("length", "one-shot CFB on {} bytes did not return {} bytes", len, len);
            }
            ctx.probe("cfb_three_way");
            ctx.nontrivial = len > 0;
            ctx.fp.bytes(&o2);
            if o0 != o2 {
                let d = first_diff(&o0, &o2);
                violation!("cfb_buf_vs_oneshot", "CFB {}: buffered and one-shot outputs differ at byte {} of {}", if dec { "decrypt" } else { "encrypt" }, d, len);
            }
            if o1[..] != o2[..whole] {
                let d = first_diff(&o1, &o2[..whole]);
                violation!("cfb_block_vs_oneshot", "CFB {}: block-level and one-shot outputs differ at byte {} (block {})", if dec { "decrypt" } else { "encrypt" }, d, d / bs);
            }
            Verdict::Ok
        }
        1 => {
            let nb = scn.num("blocks") as usize;
            let tail = scn.num("tail") as usize % bs;
            if nb > 4096 {
                invalid!("len");
            }
            let msg = scn.bytes(0, nb * bs + tail);
            let whole = nb * bs;
            let mut e = mk!(make_block("ofb.enc", bs, scn.cipher, &scn.key, &scn.iv, 0, 0));
            let mut d = mk!(make_block("ofb.dec", bs, scn.cipher, &scn.key, &scn.iv, 1, 0));
            let mut c = mk!(make_core("ofb", bs, scn.cipher, &scn.key, &scn.iv, 2, 0));
            let mut w = mk!(make_stream("ofb", bs, scn.cipher, &scn.key, &scn.iv, 3, 0));
            let oe = drive_pieces(e.as_mut(), &msg[..whole], &scn.ops, 0, scn, ctx);
            let od = drive_pieces(d.as_mut(), &msg[..whole], &scn.ops, 1, scn, ctx);
            let mut oc = Vec::new();
            let ks: Vec<&Op> = scn.ops.iter().filter(|o| o.k == "ks").collect();
            let mut i = 0;
            while oc.len() < whole {
                let (n, via, seed) = if ks.is_empty() || i >= 4 * ks.len() { (nb, 4u8, 0u64) } else { (ks[i % ks.len()].n as usize, ks[i % ks.len()].via % N_KS_VIA, ks[i % ks.len()].p as u64) };
                i += 1;
                let n = (n * bs).min(whole - oc.len());
                let mut out = scn.dirt(oc.len(), n);
                c.ks(via, seed, &msg[oc.len()..oc.len() + n], &mut out);
                oc.extend(out);
            }
            let mut ow = Vec::new();
            let ap: Vec<&Op> = scn.ops.iter().filter(|o| o.k == "apply").collect();
            let mut i = 0;
            while ow.len() < msg.len() {
                let (n, form) = if ap.is_empty() || i >= 4 * ap.len() { (msg.len(), 0u8) } else { (ap[i % ap.len()].n as usize, ap[i % ap.len()].via % N_APPLY_FORMS) };
                i += 1;
                let n = n.min(msg.len() - ow.len());
                let mut out = scn.dirt(ow.len(), n);
                if w.apply(form, &msg[ow.len()..ow.len() + n], &mut out).is_err() {
                    violation!("apply_err", "Ofb apply failed");
                }
                ow.extend(out);
            }
            ctx.probe("ofb_four_way");
            ctx.nontrivial = !msg.is_empty();
            ctx.fp.bytes(&ow);
            for (name, o) in [("block encryptor", &oe), ("block decryptor", &od), ("keystream core", &oc)] {
                if o[..] != ow[..whole] {
                    let dd = first_diff(o, &ow[..whole]);
                    violation!("ofb_faces", "OFB: {} and the byte-level stream cipher differ at byte {} (block {})", name, dd, dd / bs);
                }
            }
            if e.export() != d.export() || e.export() != c.export() {
                violation!("ofb_state", "OFB: encryptor, decryptor and core export different states after {} blocks", nb);
            }
            Verdict::Ok
        }
        2 => {
            if !STREAM_MODES.contains(&scn.mode.as_str()) || scn.mode == "ofb" {
                invalid!("mode");
            }
            let nb = scn.num("blocks") as usize;
            let sb = scn.num("startblk");
            if nb > 4096 || sb > 1 << 24 {
                invalid!("len");
            }
            let msg = scn.bytes(0, nb * bs);
            let mut w = mk!(make_stream(&scn.mode, bs, scn.cipher, &scn.key, &scn.iv, 0, 0));
            let mut c = mk!(make_core(&scn.mode, bs, scn.cipher, &scn.key, &scn.iv, 1, 0));
            if sb != 0 {
                if w.seek(2, sb * bs as u128).is_err() {
                    invalid!("start");
                }
                if sb <= 300 && scn.num("corewalk") == 1 {
                    // another route: the core walks to the start block by generating keystream
                    let z = vec![0u8; sb as usize * bs];
                    let mut o = vec![0u8; z.len()];
                    c.ks(4, 0, &z, &mut o);
                    ctx.probe("core_walks_to_start");
                } else if c.set_pos(sb) != Some(true) {
                    invalid!("start");
                }
            }
            let mut ow = Vec::new();
            let ap: Vec<&Op> = scn.ops.iter().filter(|o| o.k == "apply").collect();
            let mut i = 0;
            while ow.len() < msg.len() {
                let (n, form) = if ap.is_empty() || i >= 4 * ap.len() { (msg.len(), 0u8) } else { (ap[i % ap.len()].n as usize, ap[i % ap.len()].via % N_APPLY_FORMS) };
                i += 1;
                let n = n.min(msg.len() - ow.len());
                ctx.sig.u((form as u64) << 16 | n.min(2000) as u64);
                let mut out = scn.dirt(ow.len(), n);
                if w.apply(form, &msg[ow.len()..ow.len() + n], &mut out).is_err() {
                    violation!("apply_err", "apply failed");
                }
                ow.extend(out);
            }
            let mut oc = Vec::new();
            let ks: Vec<&Op> = scn.ops.iter().filter(|o| o.k == "ks").collect();
            let mut i = 0;
            while oc.len() < msg.len() {
                let (n, via, seed) = if ks.is_empty() || i >= 4 * ks.len() { (nb, 4u8, 0u64) } else { (ks[i % ks.len()].n as usize, ks[i % ks.len()].via % N_KS_VIA, ks[i % ks.len()].p as u64) };
                i += 1;
                let n = (n * bs).min(msg.len() - oc.len());
                ctx.sig.u(1 << 40 | (via as u64) << 16 | (n / bs).min(40) as u64);
                let mut out = scn.dirt(oc.len(), n);
                c.ks(via, seed, &msg[oc.len()..oc.len() + n], &mut out);
                oc.extend(out);
            }
            ctx.probe(if scn.mode == "belt" { "belt_core_vs_alias" } else { "ctr_core_vs_alias" });
            ctx.nontrivial = nb > 0;
            ctx.fp.bytes(&ow);
            if ow != oc {
                let d = first_diff(&ow, &oc);
                violation!("core_vs_alias", "{}: the core driven block-wise and the byte-level cipher differ at byte {} (block {} after start block {})", scn.mode, d, d / bs, sb);
            }
            if w.block_pos() != c.get_pos() {
                violation!("core_vs_alias_pos", "{}: block positions differ: alias {:?}, core {:?}", scn.mode, w.block_pos(), c.get_pos());
            }
            // rewind: the used alias seeks back, a *fresh* core is positioned there: same bytes again
            if nb > 0 {
                if let Ok(mut c2) = make_core(&scn.mode, bs, scn.cipher, &scn.key, &scn.iv, 2, 0) {
                    if w.seek(2, sb * bs as u128).is_ok() && c2.set_pos(sb) == Some(true) {
                        let n = bs * nb.min(2);
                        let (mut o1, mut o2) = (vec![0u8; n], vec![0u8; n]);
                        if w.apply(0, &msg[..n], &mut o1).is_err() {
                            violation!("apply_err", "apply after rewinding failed");
                        }
                        c2.ks(4, 0, &msg[..n], &mut o2);
                        ctx.probe("rewind_vs_fresh_core");
                        if o1 != o2 || o1[..] != ow[..n] {
                            violation!("core_vs_alias", "{}: after seeking back to block {}, the used byte-level cipher, a fresh core positioned there and the first pass disagree", scn.mode, sb);
                        }
                        // put the alias back where it was for the one-shot comparison below
                        if w.seek(2, (sb + nb as u128) * bs as u128).is_err() {
                            violation!("seek_err", "seek forward again failed");
                        }
                    }
                }
            }
            // the core's consuming one-shot vs the alias on the following bytes (far from the limit)
            let tail = (scn.num("tailbytes") as usize).min(1 << 12);
            if tail > 0 {
                let m2 = scn.bytes(nb * bs + 5, tail);
                let (mut o1, mut o2) = (scn.dirt(1, tail), scn.dirt(2, tail));
                if w.apply(0, &m2, &mut o1).is_err() || c.partial(scn.num("tailbytes") % 2 == 1, &m2, &mut o2).is_err() {
                    violation!("apply_err", "one-shot on {} bytes failed", tail);
                }
                ctx.probe("core_one_shot_vs_alias");
                if o1 != o2 {
                    violation!("core_vs_alias", "{}: the core's one-shot apply_keystream_partial and the byte-level cipher differ at byte {} of {} (after {} blocks)", scn.mode, first_diff(&o1, &o2), tail, nb);
                }
            }
            Verdict::Ok
        }
        3 => {
            if !CTS_MODES.contains(&scn.mode.as_str()) {
                invalid!("mode");
            }
            let nb = scn.num("blocks") as usize;
            if nb == 0 || nb > 2048 {
                invalid!("len");
            }
            let dec = scn.num("dec") == 1;
            let n = nb * bs;
            let msg = scn.bytes(0, n);
            let form = scn.ops.iter().find(|o| o.k == "cts").map(|o| o.via % N_CTS_FORMS).unwrap_or(0);
            let cbc = scn.mode.starts_with("cbc");
            let cs3 = scn.mode.ends_with("cs3");
            ctx.sig.u((form as u64) << 20 | (dec as u64) << 16 | nb.min(5) as u64);
            ctx.probe_if(nb == 1, "cts_one_block");
            ctx.probe_if(cs3 && nb >= 2, "cts_cs3_swap");
            // the plain mode on the same blocks
            let plain = |data: &[u8], ctx: &mut Ctx| -> Result<Vec<u8>, Verdict> {
                if cbc {
                    let m = if dec { "cbc.dec" } else { "cbc.enc" };
                    let mut o = match make_block(m, bs, scn.cipher, &scn.key, &scn.iv, 1, 0) {
                        Ok(o) => o,
                        Err(e) => return Err(mkerr(e)),
                    };
                    Ok(drive_pieces(o.as_mut(), data, &scn.ops, 1, scn, ctx))
                } else {
                    let mut v = data.to_vec();
                    for b in v.chunks_mut(bs) {
                        if dec { prim_dec(scn.cipher, &scn.key, b) } else { prim_enc(scn.cipher, &scn.key, b) }
                    }
                    Ok(v)
                }
            };
            let swap_last_two = |v: &mut Vec<u8>| {
                if nb >= 2 {
                    let (a, b) = v.split_at_mut(n - bs);
                    a[n - 2 * bs..].swap_with_slice(b);
                }
            };
            let mut out = scn.dirt(0, n);
            let expect = if !dec {
                // encrypt: cts(m) == plain(m) [CS3: last two blocks exchanged]
                let mut p = match plain(&msg, ctx) {
                    Ok(p) => p,
                    Err(v) => return v,
                };
                if cs3 {
                    swap_last_two(&mut p);
                }
                match cts_run(&scn.mode, bs, scn.cipher, &scn.key, &scn.iv, 0, 0, false, form, &msg, &mut out) {
                    Err(e) => return mkerr(e),
                    Ok(Ok(())) => {}
                    Ok(Err(())) => violation!("result", "cts encrypt of {} whole blocks failed", nb),
                }
                p
            } else {
                // decrypt: cts_dec(c) == plain_dec(c with the exchange undone)
                let mut c = msg.clone();
                if cs3 {
                    swap_last_two(&mut c);
                }
                let p = match plain(&c, ctx) {
                    Ok(p) => p,
                    Err(v) => return v,
                };
                match cts_run(&scn.mode, bs, scn.cipher, &scn.key, &scn.iv, 0, 0, true, form, &msg, &mut out) {
                    Err(e) => return mkerr(e),
                    Ok(Ok(())) => {}
                    Ok(Err(())) => violation!("result", "cts decrypt of {} whole blocks failed", nb),
                }
                p
            };
            ctx.nontrivial = true;
            ctx.fp.bytes(&out);
            if out != expect {
                let d = first_diff(&out, &expect);
                violation!(
                    "cts_whole_blocks",
                    "{} {} of {} whole block(s): output differs from {} at byte {} (block {}): got {} expected {}",
                    scn.mode, if dec { "decrypt" } else { "encrypt" }, nb,
                    if cbc { "plain CBC" } else { "raw block processing" }, d, d / bs,
                    hexs(&out[d / bs * bs..(d / bs + 1) * bs]), hexs(&expect[d / bs * bs..(d / bs + 1) * bs])
                );
            }
            Verdict::Ok
        }
        _ => {
            let group = scn.num("group");
            let ctor = (1 + (scn.num("ctor").max(1) - 1) % 3) as u8;
            let len = scn.num("len") as usize;
            if len > 1 << 14 {
                invalid!("len");
            }
            let dec = scn.num("dec") == 1;
            ctx.sig.u((group as u64) << 8 | ctor as u64);
            ctx.probe(match ctor {
                1 => "ctor_new",
                2 => "ctor_slices",
                _ => "ctor_inner_slice",
            });
            let msg = scn.bytes(0, len);
            let (o_ref, o_alt): (Vec<u8>, Vec<u8>) = match group {
                0 => {
                    if !BLOCK_MODES.contains(&scn.mode.as_str()) {
                        invalid!("mode");
                    }
                    let mut a = mk!(make_block(&scn.mode, bs, scn.cipher, &scn.key, &scn.iv, 0, 0));
                    let mut b = mk!(make_block(&scn.mode, bs, scn.cipher, &scn.key, &scn.iv, 1, ctor));
                    let g = a.bs();
                    let n = len / g * g;
                    let (mut oa, mut ob) = (vec![0; n], vec![0; n]);
                    a.proc(VIA_BLOCKS, 0, &msg[..n], &mut oa);
                    b.proc(VIA_BLOCKS, 0, &msg[..n], &mut ob);
                    if a.export() != b.export() {
                        violation!("ctor_state", "{}: state differs between constructors 0 and {}", scn.mode, ctor);
                    }
                    (oa, ob)
                }
                1 => {
                    if !STREAM_MODES.contains(&scn.mode.as_str()) {
                        invalid!("mode");
                    }
                    let mut a = mk!(make_stream(&scn.mode, bs, scn.cipher, &scn.key, &scn.iv, 0, 0));
                    let mut b = mk!(make_stream(&scn.mode, bs, scn.cipher, &scn.key, &scn.iv, 1, ctor));
                    let (mut oa, mut ob) = (vec![0; len], vec![0; len]);
                    if a.apply(0, &msg, &mut oa).is_err() || b.apply(0, &msg, &mut ob).is_err() {
                        violation!("apply_err", "apply failed");
                    }
                    if a.seekable() {
                        // positions and seeking must agree too, not only the first bytes
                        let p = (scn.num("len") * 7 + 3) % (1 << 20);
                        if a.pos(2) != b.pos(2) || a.seek(2, p).is_err() != b.seek(2, p).is_err() || a.pos(1) != b.pos(1) {
                            violation!("ctor_position", "{}: position / seek behaviour differs between constructors 0 and {}", scn.mode, ctor);
                        }
                        let (mut o2a, mut o2b) = (vec![0; len], vec![0; len]);
                        if a.apply(0, &msg, &mut o2a).is_err() || b.apply(0, &msg, &mut o2b).is_err() {
                            violation!("apply_err", "apply failed");
                        }
                        oa.extend(o2a);
                        ob.extend(o2b);
                        ctx.probe("ctor_then_seek");
                    }
                    (oa, ob)
                }
                2 => {
                    if !BUF_MODES.contains(&scn.mode.as_str()) {
                        invalid!("mode");
                    }
                    let mut a = mk!(make_buf(&scn.mode, bs, scn.cipher, &scn.key, &scn.iv, 0, 0, None));
                    let mut b = mk!(make_buf(&scn.mode, bs, scn.cipher, &scn.key, &scn.iv, 1, ctor, None));
                    let (mut oa, mut ob) = (msg.clone(), msg.clone());
                    a.proc(&mut oa);
                    b.proc(&mut ob);
                    (oa, ob)
                }
                _ => {
                    if !CTS_MODES.contains(&scn.mode.as_str()) || len < bs {
                        invalid!("mode");
                    }
                    let (mut oa, mut ob) = (vec![0; len], vec![0; len]);
                    let ra = cts_run(&scn.mode, bs, scn.cipher, &scn.key, &scn.iv, 0, 0, dec, 0, &msg, &mut oa);
                    let rb = cts_run(&scn.mode, bs, scn.cipher, &scn.key, &scn.iv, 1, ctor, dec, 0, &msg, &mut ob);
                    match (ra, rb) {
                        (Err(e), _) | (_, Err(e)) => return mkerr(e),
                        (Ok(Ok(())), Ok(Ok(()))) => {}
                        (x, y) => violation!("result", "cts results differ between constructors: {:?} vs {:?}", x, y),
                    }
                    (oa, ob)
                }
            };
            ctx.nontrivial = len > 0;
            ctx.fp.bytes(&o_ref);
            if o_ref != o_alt {
                let d = first_diff(&o_ref, &o_alt);
                violation!("ctor", "{}: an instance built from key bytes (constructor {}) and one built from an already keyed cipher differ at byte {}", scn.mode, ctor, d);
            }
            Verdict::Ok
        }
    }
}
