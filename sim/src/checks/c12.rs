//! C12 - in-place and buffer-to-buffer operation give identical results.
//!
//! Twin run, identical history on two instances built alike: A performs every data call in place,
//! B performs the matching buffer-to-buffer form (op.m selects which one) into an output buffer
//! pre-filled with a non-zero pattern.  Both twins use the same fixed backend width, so a
//! difference can only come from the buffer form.  Partial fit (DESIGN section 2): the buffer form
//! is one more per-step choice of the schedule.
//!   kind 0 block modes: blocks(n, via in {in-place forms}, m -> b2b form, p) ...
//!                       optional closing padded(n bytes, ty=padding) or async(n bytes)
//!   kind 1 byte-stream wrappers: apply(n)       kind 2 stream cores: ks(n)
//!   kind 3 cts one-shot: cts(n bytes, ty=direction)

use super::common::*;
use crate::engine::{CheckDef, Ctx, Verdict};
use crate::factory::{BLOCK_MODES, CTS_MODES, MkErr, STREAM_MODES, cts_run, make_block, make_core, make_stream};
use crate::obj::*;
use crate::prng::Rng;
use crate::scn::{Op, Scn};
use crate::simcipher::{Policy, WIDTHS, env_stats};
use crate::{invalid, violation};

pub fn def() -> CheckDef {
    CheckDef {
        id: "C12",
        level: "exploration",
        runs_quick: 600_000,
        runs_thorough: 15_000_000,
        rule: "twin runs of the real code with identical histories, one twin using the in-place form of every call and the other the buffer-to-buffer form (block/blocks/script calls, padded and async one-shots, apply_keystream forms, core keystream forms, cts forms) into an output buffer pre-filled with a non-zero pattern derived from the data; same fixed backend width on both. All 12 block-mode types, 8 stream aliases, 8 cores, 6 cts types. distinct = distinct (type, block size, cipher, width, per-op (form pair, size class) sequence); non-trivial = >= 1 byte processed",
        required_probes: &["cts_tail_1", "cts_tail_bs_minus_1", "par_b2b", "padded_b2b", "async_b2b", "stream_b2b", "core_b2b", "long_one_shot"],
        r#gen,
        exec,
        components: "real code: all nine crates and cipher's front ends, both twins; stub: block cipher in most runs, real ciphers in the rest; no reference model",
        assumptions: &["toy permutation is a bijection (self-tested)", "sampling, not proof"],
        nondet_is_violation: false,
    }
}

const INPLACE: [u8; 4] = [VIA_BLOCK, VIA_BLOCKS, VIA_SCRIPT, VIA_BLOCKS_INOUT_INPLACE];
fn b2b_of(via: u8, sel: u64) -> u8 {
    match via {
        VIA_BLOCK => [VIA_BLOCK_INOUT, VIA_BLOCK_B2B][(sel % 2) as usize],
        VIA_SCRIPT => VIA_SCRIPT_B2B,
        _ => [VIA_BLOCKS_INOUT, VIA_BLOCKS_B2B][(sel % 2) as usize],
    }
}

fn r#gen(rng: &mut Rng, thorough: bool) -> Scn {
    let kind = match rng.below(10) {
        0..=4 => 0,
        5 | 6 => 1,
        7 => 2,
        _ => 3,
    };
    let pool = 64 + rng.usize(400);
    let maxops = if thorough { 10 } else { 6 };
    let mut s;
    match kind {
        0 => {
            let mode = *rng.pick(&BLOCK_MODES);
            s = base_scn(rng, "C12", mode, false, 2, pool);
            let maxb = if s.bs == 255 { 10 } else { 24 };
            for _ in 0..rng.usize(maxops + 1) {
                s.ops.push(Op::new("blocks").n(rng.nblocks(maxb, 8)).via(*rng.pick(&INPLACE)).m(rng.below(2)).p(rng.next() as u128));
            }
            let g = if mode.starts_with("cfb8") { 1 } else { s.bs as u64 };
            match rng.below(3) {
                0 => {
                    let n = if rng.chance(1, 6) { rng.nbytes_long(g) } else { rng.nbytes(8 * g, g) };
                    s.ops.push(Op::new("padded").n(n).ty(rng.below(5) as u8).m(rng.below(2)))
                }
                1 if mode.starts_with("cfb") => {
                    let n = if rng.chance(1, 6) { rng.nbytes_long(s.bs as u64) } else { rng.nbytes(8 * s.bs as u64, s.bs as u64) };
                    s.ops.push(Op::new("async").n(n).m(rng.below(2)))
                }
                _ => {}
            }
        }
        1 => {
            let mode = *rng.pick(&STREAM_MODES);
            s = base_scn(rng, "C12", mode, false, 2, pool);
            for _ in 0..1 + rng.usize(maxops) {
                s.ops.push(Op::new("apply").n(rng.nbytes(6 * s.bs as u64, s.bs as u64)).via(rng.below(3) as u8).m(rng.below(3)));
            }
        }
        2 => {
            let mode = *rng.pick(&STREAM_MODES);
            s = base_scn(rng, "C12", mode, false, 2, pool);
            for _ in 0..1 + rng.usize(maxops) {
                s.ops.push(Op::new("ks").n(rng.nblocks(20, 8)).via(rng.below(3) as u8).m(rng.below(2)));
            }
        }
        _ => {
            let mode = *rng.pick(&CTS_MODES);
            s = base_scn(rng, "C12", mode, true, 2, pool);
            let bs = s.bs as u64;
            let tail = match rng.below(5) {
                0 => 0,
                1 => 1,
                2 => bs - 1,
                _ => rng.below(bs),
            };
            let n = bs * (1 + rng.below(if bs == 255 { 6 } else { 20 })) + tail;
            s.ops.push(Op::new("cts").n(n).via(rng.below(2) as u8).m(rng.below(2)).ty(rng.below(2) as u8));
        }
    }
    s.set_num("kind", kind as u128);
    let w = *rng.pick(&WIDTHS);
    s.pol = vec![Policy::Fixed(w), Policy::Fixed(w)];
    s
}

fn exec(scn: &Scn, ctx: &mut Ctx) -> Verdict {
    // same fixed width for both twins
    let w = scn.pol[0].max_width();
    let mut s2 = scn.clone();
    s2.pol = vec![Policy::Fixed(w), Policy::Fixed(w)];
    env_setup(&s2, false);
    sig_base(ctx, &s2);
    let kind = scn.num("kind");
    ctx.sig.u(kind as u64);
    let bs = scn.bs;
    match kind {
        0 => {
            if !BLOCK_MODES.contains(&scn.mode.as_str()) {
                invalid!("mode");
            }
            let mk = |tag: u8| make_block(&scn.mode, bs, scn.cipher, &scn.key, &scn.iv, tag, 0);
            let (mut a, mut b) = match (mk(0), mk(1)) {
                (Ok(a), Ok(b)) => (a, b),
                (Err(MkErr::Unsupported), _) => invalid!("unsupported"),
                _ => violation!("construct", "rejected"),
            };
            let g = a.bs();
            let mut off = 0usize;
            for (i, op) in scn.ops.iter().enumerate() {
                ctx.sig.s(&op.k);
                match op.k.as_str() {
                    "blocks" => {
                        let va = if INPLACE.contains(&op.via) { op.via } else { VIA_BLOCKS };
                        let vb = b2b_of(va, op.m);
                        let n = op.n as usize * g;
                        if n > 1 << 16 {
                            invalid!("too long");
                        }
                        ctx.sig.u((va as u64) << 20 | (vb as u64) << 12 | size_class(op.n, w as u64));
                        let inp = scn.bytes(off, n);
                        let mut oa = vec![0u8; n];
                        a.proc(va, op.p as u64, &inp, &mut oa);
                        let mut ob = scn.dirt(off, n);
                        let st0 = env_stats();
                        b.proc(vb, op.p as u64, &inp, &mut ob);
                        ctx.probe_if(env_stats().par_groups > st0.par_groups, "par_b2b");
                        ctx.nontrivial |= n > 0;
                        ctx.fp.bytes(&oa);
                        if oa != ob {
                            let d = first_diff(&oa, &ob) / g;
                            violation!("output", "op {} ({} blocks): in-place form {} and buffer-to-buffer form {} differ at block {}: {} vs {}", i, op.n, va, vb, d, hexs(&oa[d * g..(d + 1) * g]), hexs(&ob[d * g..(d + 1) * g]));
                        }
                        if a.export() != b.export() {
                            violation!("state", "after op {}: chaining state differs between in-place (form {}) and buffer-to-buffer (form {})", i, va, vb);
                        }
                        off += n;
                    }
                    "padded" | "async" => {
                        if i + 1 != scn.ops.len() {
                            invalid!("one-shot must be last");
                        }
                        let n = op.n as usize;
                        if n > 1 << 16 {
                            invalid!("too long");
                        }
                        ctx.probe_if(n > 32 * g, "long_one_shot");
                        let inp = scn.bytes(off, n);
                        let cap = n + g + 1;
                        let (ka, kb, pad) = if op.k == "padded" {
                            ctx.probe("padded_b2b");
                            let pad = op.ty % 5;
                            // encrypt_padded_vec::<NoPadding> panics on a partial block (cipher crate;
                            // recorded under C13): stay inside the Ok domain of the _vec convenience
                            let vec_ok = !(a.is_enc() && pad == 2 && n % g != 0);
                            (0u8, if vec_ok { 1 + (op.m % 2) as u8 } else { 1 }, pad)
                        } else {
                            if !a.has_async() {
                                invalid!("no async");
                            }
                            ctx.probe("async_b2b");
                            (3u8, 4 + (op.m % 2) as u8, 0)
                        };
                        ctx.sig.u((ka as u64) << 28 | (kb as u64) << 24 | (pad as u64) << 20 | ((n % g.max(1)) as u64) << 4 | (n / g.max(1)).min(3) as u64);
                        let dec = !a.is_enc();
                        let (la, lb) = if op.k == "padded" && !dec { (cap, cap) } else { (n, n) };
                        let mut oa = vec![0u8; la];
                        let mut ob = scn.dirt(off + 3, lb);
                        let ra = a.finish(ka, pad, &inp, &mut oa);
                        let rb = b.finish(kb, pad, &inp, &mut ob);
                        ctx.nontrivial |= n > 0;
                        if ra != rb {
                            violation!("result", "op {} ({} on {} bytes, padding {}): in place returned {:?}, buffer-to-buffer (kind {}) returned {:?}", i, op.k, n, PADS[pad as usize], ra, kb, rb);
                        }
                        if let Ok(l) = ra {
                            ctx.fp.bytes(&oa[..l]);
                            if oa[..l] != ob[..l] {
                                let d = first_diff(&oa[..l], &ob[..l]);
                                violation!("output", "op {} ({} on {} bytes, padding {}): byte {} differs between in place and kind {}", i, op.k, n, PADS[pad as usize], d, kb);
                            }
                        }
                        return Verdict::Ok;
                    }
                    _ => invalid!("op"),
                }
            }
            Verdict::Ok
        }
        1 => {
            if !STREAM_MODES.contains(&scn.mode.as_str()) {
                invalid!("mode");
            }
            let mk = |tag: u8| make_stream(&scn.mode, bs, scn.cipher, &scn.key, &scn.iv, tag, 0);
            let (mut a, mut b) = match (mk(0), mk(1)) {
                (Ok(a), Ok(b)) => (a, b),
                (Err(MkErr::Unsupported), _) => invalid!("unsupported"),
                _ => violation!("construct", "rejected"),
            };
            let mut off = 0usize;
            for (i, op) in scn.ops.iter().enumerate() {
                if op.k != "apply" {
                    invalid!("op");
                }
                let fa = [0u8, 3, 5][(op.via % 3) as usize];
                let fb = [1u8, 2, 4][(op.m % 3) as usize];
                let n = op.n as usize;
                if n > 1 << 16 {
                    invalid!("too long");
                }
                ctx.sig.u((fa as u64) << 28 | (fb as u64) << 24 | ((off % bs) as u64) << 12 | ((n % bs) as u64) << 4 | (n / bs).min(3) as u64);
                let inp = scn.bytes(off, n);
                let mut oa = vec![0u8; n];
                let mut ob = scn.dirt(off, n);
                let ra = a.apply(fa, &inp, &mut oa);
                let rb = b.apply(fb, &inp, &mut ob);
                ctx.probe("stream_b2b");
                ctx.nontrivial |= n > 0;
                if ra.is_err() || rb.is_err() {
                    violation!("result", "op {}: apply({}) returned {:?} in place, {:?} buffer-to-buffer", i, n, ra, rb);
                }
                ctx.fp.bytes(&oa);
                if oa != ob {
                    let d = first_diff(&oa, &ob);
                    violation!("output", "op {} (apply {} bytes at offset {}): form {} (in place) and form {} (separate buffers) differ at byte {}", i, n, off, fa, fb, d);
                }
                if a.seekable() && a.pos(2) != b.pos(2) {
                    violation!("state", "after op {}: positions differ {:?} vs {:?}", i, a.pos(2), b.pos(2));
                }
                off += n;
            }
            Verdict::Ok
        }
        2 => {
            if !STREAM_MODES.contains(&scn.mode.as_str()) {
                invalid!("mode");
            }
            let mk = |tag: u8| make_core(&scn.mode, bs, scn.cipher, &scn.key, &scn.iv, tag, 0);
            let (mut a, mut b) = match (mk(0), mk(1)) {
                (Ok(a), Ok(b)) => (a, b),
                (Err(MkErr::Unsupported), _) => invalid!("unsupported"),
                _ => violation!("construct", "rejected"),
            };
            let mut off = 0usize;
            for (i, op) in scn.ops.iter().enumerate() {
                if op.k != "ks" {
                    invalid!("op");
                }
                let va = [2u8, 4, 7][(op.via % 3) as usize];
                let vb = if va == 2 { 3 } else { 5 };
                let n = op.n as usize * bs;
                if n > 1 << 16 {
                    invalid!("too long");
                }
                ctx.sig.u((va as u64) << 20 | size_class(op.n, w as u64));
                let inp = scn.bytes(off, n);
                let mut oa = vec![0u8; n];
                let mut ob = scn.dirt(off, n);
                a.ks(va, 0, &inp, &mut oa);
                b.ks(vb, 0, &inp, &mut ob);
                ctx.probe("core_b2b");
                ctx.nontrivial |= n > 0;
                ctx.fp.bytes(&oa);
                if oa != ob {
                    let d = first_diff(&oa, &ob) / bs;
                    violation!("output", "op {} ({} keystream blocks): form {} (in place) and form {} (separate buffers) differ at block {}", i, op.n, va, vb, d);
                }
                if a.export() != b.export() || a.get_pos() != b.get_pos() {
                    violation!("state", "after op {}: core state differs between the two forms", i);
                }
                off += n;
            }
            Verdict::Ok
        }
        _ => {
            let op = match scn.ops.first() {
                Some(o) if o.k == "cts" => o,
                _ => invalid!("op"),
            };
            let n = op.n as usize;
            if n < bs || n > 1 << 16 {
                invalid!("length");
            }
            let fa = [0u8, 3][(op.via % 2) as usize];
            let fb = [1u8, 2][(op.m % 2) as usize];
            let dec = op.ty % 2 == 1;
            ctx.sig.u((fa as u64) << 28 | (fb as u64) << 24 | (dec as u64) << 20 | ((n % bs) as u64) << 4 | (n / bs).min(3) as u64);
            ctx.probe_if(n % bs == 1 && bs > 2, "cts_tail_1");
            ctx.probe_if(n % bs == bs - 1 && bs > 2, "cts_tail_bs_minus_1");
            let inp = scn.bytes(0, n);
            let mut oa = vec![0u8; n];
            let mut ob = scn.dirt(0, n);
            let ra = cts_run(&scn.mode, bs, scn.cipher, &scn.key, &scn.iv, 0, 0, dec, fa, &inp, &mut oa);
            let rb = cts_run(&scn.mode, bs, scn.cipher, &scn.key, &scn.iv, 1, 0, dec, fb, &inp, &mut ob);
            match (ra, rb) {
                (Err(MkErr::Unsupported), _) | (_, Err(MkErr::Unsupported)) => invalid!("unsupported"),
                (Ok(Ok(())), Ok(Ok(()))) => {}
                (x, y) => violation!("result", "cts call on {} bytes returned {:?} in place but {:?} buffer-to-buffer", n, x, y),
            }
            ctx.nontrivial = true;
            ctx.fp.bytes(&oa);
            if oa != ob {
                let d = first_diff(&oa, &ob);
                violation!("output", "{} {} of {} bytes: in-place form {} and buffer-to-buffer form {} differ at byte {}", scn.mode, if dec { "decrypt" } else { "encrypt" }, n, fa, fb, d);
            }
            Verdict::Ok
        }
    }
}
