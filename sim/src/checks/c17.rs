//! C17 - mode objects do not leak chaining state via Debug output or dropped memory.
//!
//! nums.part = 0 (Debug / algorithm name): two instances of one type, X with (key, IV, history)
//!   and Y with a different key, IV and history; the Debug and AlgorithmName text must be identical
//!   per type, and X's text must not change while its history proceeds.  For the byte-stream
//!   aliases the text is compared in three parts: the core's own Debug, the wrapper text with the
//!   `buffer_data` field removed, and the `buffer_data` field itself (separate clause, so that the
//!   recorded finding about that field does not hide anything else).
//! nums.part = 1 (zeroize): DROP is injected after EVERY prefix of the sampled history (one
//!   execution per prefix).  The object lives in a harness-owned zeroed slot; after drop_in_place
//!   the slot is scanned for any 8-byte window (forward or byte-reversed) of: the construction IV,
//!   the state exported just before the drop and its image under E, the next keystream blocks
//!   (obtained from a twin that replayed the same prefix).  Low-entropy windows are skipped.
//!   In the control build (crate feature `zeroize` off) residue is *expected*: it is counted per
//!   type and the normal run refuses to pass unless the control found residue for every type
//!   (a scanner that is blind cannot produce a silent pass).

use super::common::*;
use super::inst::*;
use crate::engine::{CheckDef, Ctx, Verdict, intern};
use crate::factory::{CK, MkErr, prim_enc, sizes_for};
use crate::prng::Rng;
use crate::scn::{Op, Scn};
use crate::{invalid, violation};

pub const ZEROIZE_ON: bool = cfg!(feature = "zeroize");

pub fn def() -> CheckDef {
    CheckDef {
        id: "C17",
        level: "fault_enumeration",
        runs_quick: 100_000,
        runs_thorough: 2_000_000,
        rule: "(a) Debug/AlgorithmName text of every public type compared between two instances with different key, IV and history and along one instance's history; (b) drop injected after every prefix of a sampled history (block modes x12, byte-stream aliases x8, cores x8, buffered CFB x2 over the harness cipher, block sizes >= 8), followed by a scan of the object's storage for 8-byte windows of the IV, the exported state, its image under E and the next keystream blocks; positive control: the same scenarios on a build without the zeroize features must leave residue for every type. evaluations = scenarios; drop points counted in reach_probes.drop_points. distinct = distinct (part, type, block size, cipher, history shape); non-trivial = history of >= 1 data operation",
        required_probes: &["drop_points", "live_state_seen", "debug_compared", "drop_mid_block", "drop_after_seek", "debug_at_keystream_end", "drop_far_position"],
        r#gen,
        exec,
        components: "real code: Debug, AlgorithmName and Drop/zeroize implementations of the nine crates and of cipher's StreamCipherCoreWrapper; stub: block cipher (SimCipher: 16 bytes, alignment 1, so that no object has 8 or more padding bytes); scanner: harness-side read of the slot after drop_in_place; cts has neither Debug nor a zeroize feature (vacuous there)",
        assumptions: &["secrets shorter than 8 bytes are not scanned for", "copies left on the stack by moves are outside the object's storage and not scanned", "the scanner is validated by the positive-control build in the same command"],
        nondet_is_violation: false,
    }
}

fn r#gen(rng: &mut Rng, thorough: bool) -> Scn {
    let fam = pick_fam(rng);
    let mode = *rng.pick(fam_modes(fam));
    let minbs = if mode.starts_with("ctr32") { 12 } else { 8 };
    let sizes: Vec<usize> = sizes_for(mode).iter().copied().filter(|b| *b >= minbs).collect();
    let bs = *rng.pick(&sizes);
    let ck = if crate::factory::enc_only_mode(mode) && rng.chance(1, 4) { CK::SimEnc } else { CK::Sim };
    let mut s = Scn::new("C17", mode, bs, ck);
    s.key = rng.bytes(8);
    s.iv = rng.bytes(crate::factory::iv_len(mode, bs));
    s.pol = vec![pick_policy(rng)];
    s.env_seed = rng.next();
    let dl = 64 + rng.usize(300);
    s.data = rng.bytes(dl);
    s.set_num("fam", fam as u128);
    s.set_num("part", rng.chance(1, 3) as u128 ^ 1);
    let w = s.pol[0].max_width() as u64;
    for _ in 0..1 + rng.usize(if thorough { 7 } else { 5 }) {
        let op = if fam == FAM_STREAM && mode != "ofb" && rng.chance(1, 5) {
            let lim = super::c04::flavor_of(mode).map(super::c04::limit_blocks).unwrap_or(u128::MAX);
            let far = (rng.next() as u128 >> rng.below(40)) % (lim.min(u64::MAX as u128 / bs as u128) - (1 << 16)) * bs as u128;
            Op::new("seek").p(if rng.chance(2, 3) { rng.below(7 * bs as u64) as u128 } else { far + rng.below(bs as u64) as u128 })
        } else if fam == FAM_CORE && mode != "ofb" && rng.chance(1, 6) {
            // sometimes far away, so that the block counter itself is a high-entropy value
            let lim = super::c04::flavor_of(mode).map(super::c04::limit_blocks).unwrap_or(u128::MAX);
            Op::new("setpos").p(if rng.chance(1, 2) { rng.below(1 << 20) as u128 } else { (rng.u128() >> rng.below(64)) % (lim - (1 << 16)) })
        } else if rng.chance(1, 7) {
            Op::new("restart")
        } else {
            gen_data_op(rng, fam, mode, bs, w)
        };
        s.ops.push(op);
    }
    // sometimes finish exactly at the end of the keystream (position-dependent text would show there)
    if let Some(fl) = super::c04::flavor_of(mode) {
        let l = super::c04::limit_blocks(fl);
        if fam == FAM_CORE && rng.chance(1, 5) {
            s.ops.push(Op::new("setpos").p(l - rng.below(2) as u128));
        } else if fam == FAM_STREAM && fl.bits < 128 && rng.chance(1, 5) {
            s.ops.push(Op::new("seek").p(l * bs as u128 - (rng.below(2) * rng.below(bs as u64)) as u128).ty(1));
        }
    }
    s
}

fn windows(v: &[u8], out: &mut Vec<[u8; 8]>) {
    if v.len() < 8 {
        return;
    }
    for i in 0..=v.len() - 8 {
        let w: [u8; 8] = v[i..i + 8].try_into().unwrap();
        let mut d = w;
        d.sort_unstable();
        let distinct = 1 + d.windows(2).filter(|p| p[0] != p[1]).count();
        if distinct < 5 {
            continue;
        }
        out.push(w);
        let mut r = w;
        r.reverse();
        out.push(r);
    }
}

fn find(hay: &[u8], wins: &[[u8; 8]]) -> Option<(usize, [u8; 8])> {
    if hay.len() < 8 {
        return None;
    }
    for i in 0..=hay.len() - 8 {
        let h: [u8; 8] = hay[i..i + 8].try_into().unwrap();
        if wins.contains(&h) {
            return Some((i, h));
        }
    }
    None
}

/// run the first `p` ops on a fresh instance; Err(Invalid) if an op does not apply
fn replay(scn: &Scn, fam: u8, key: &[u8], iv: &[u8], tag: u8, p: usize, ctx: Option<&mut Ctx>) -> Result<(Inst, usize, bool), Verdict> {
    let mut inst = match Inst::make(fam, &scn.mode, scn.bs, scn.cipher, key, iv, tag, 0) {
        Ok(i) => i,
        Err(MkErr::Unsupported) => return Err(Verdict::Invalid("unsupported".into())),
        Err(_) => return Err(Verdict::Violation { clause: "construct".into(), detail: "rejected".into() }),
    };
    let mut bytes = 0usize;
    let mut seeked = false;
    let mut imported = false;
    let mut ctx = ctx;
    for (i, op) in scn.ops.iter().take(p).enumerate() {
        if op.k == "restart" {
            // export, drop, import: byte-stream aliases only at a block boundary
            let at_boundary = match &inst {
                Inst::S(_) => bytes % scn.bs == 0,
                _ => true,
            };
            if at_boundary {
                if let Some(e) = inst.export() {
                    drop(inst);
                    inst = match Inst::import(fam, &scn.mode, scn.bs, scn.cipher, key, &e, tag) {
                        Ok(x) => x,
                        Err(_) => return Err(Verdict::Violation { clause: "import".into(), detail: "exported state rejected".into() }),
                    };
                    imported = true;
                }
            }
            continue;
        }
        let n = op.n as usize * inst.unit();
        if n > 1 << 14 {
            return Err(Verdict::Invalid("len".into()));
        }
        let inp = if op.k == "data" { op_input(scn, i, n) } else { Vec::new() };
        if let Some(c) = ctx.as_deref_mut() {
            c.sig.s(&op.k);
            c.sig.u((op.via as u64) << 16 | op.n.min(40));
        }
        match inst.step(op, &inp, scn.dirt(i, inp.len())) {
            Ok(_) => {}
            Err(e) if e == "op does not apply" || e == "unrepresentable" || e == "setpos not possible" => return Err(Verdict::Invalid(e)),
            Err(e) => return Err(Verdict::Violation { clause: "apply_err".into(), detail: e }),
        }
        if op.k == "data" {
            bytes += n;
        } else {
            seeked = true;
            bytes = op.p as usize;
        }
    }
    let _ = imported;
    Ok((inst, bytes, seeked))
}

/// (text without the wrapper's buffer_data field, the buffer_data field)
fn split_debug(t: &str) -> (String, String) {
    // the text holds the compact and the pretty form: strip every buffer_data list
    let mut rest = String::new();
    let mut bufs = String::new();
    let mut cur = t;
    while let Some(i) = cur.find("buffer_data: [") {
        match cur[i..].find(']') {
            Some(j) => {
                rest.push_str(&cur[..i]);
                rest.push_str("buffer_data: [..]");
                // normalise whitespace so that compact and pretty lists compare alike
                bufs.push_str(&cur[i..i + j + 1].split_whitespace().collect::<String>());
                bufs.push(';');
                cur = &cur[i + j + 1..];
            }
            None => break,
        }
    }
    rest.push_str(cur);
    (rest, bufs)
}

fn exec(scn: &Scn, ctx: &mut Ctx) -> Verdict {
    env_setup(scn, false);
    sig_base(ctx, scn);
    let fam = scn.num("fam") as u8;
    if fam > 3 || !fam_modes(fam).contains(&scn.mode.as_str()) || scn.cipher.real_bs().is_some() {
        invalid!("mode");
    }
    let part = scn.num("part");
    ctx.sig.u((fam as u64) << 8 | part as u64);
    let bs = scn.bs;
    let m = scn.ops.len();
    ctx.nontrivial = scn.ops.iter().any(|o| o.k == "data" && o.n > 0);
    if part == 0 {
        // ---------------- Debug / algorithm name
        let key2: Vec<u8> = scn.key.iter().map(|b| !b).collect();
        let iv2: Vec<u8> = scn.iv.iter().enumerate().map(|(i, b)| b.wrapping_mul(3) ^ 0x6d ^ i as u8).collect();
        let mut s2 = scn.clone();
        // the other instance gets another history; an end-of-keystream positioning stays last
        let end_op = match s2.ops.last() {
            Some(o) if o.k != "data" && o.p >= 1 << 31 => s2.ops.pop(),
            _ => None,
        };
        s2.ops.reverse();
        s2.ops.extend(end_op);
        for o in s2.ops.iter_mut() {
            if o.k == "data" {
                o.n += 1;
                o.via = o.via.wrapping_add(1);
            } else if o.p < 1 << 31 {
                o.p += 5;
            }
        }
        let rot = 7 % s2.data.len().max(1);
        s2.data.rotate_left(rot);
        let (y, _, _) = match replay(&s2, fam, &key2, &iv2, 1, m, None) {
            Ok(x) => x,
            Err(v) => return v,
        };
        let (ytext, ybuf) = split_debug(&y.debug());
        let yalg = y.alg();
        let ycore = if let Inst::S(s) = &y { s.core_debug() } else { String::new() };
        let mut deferred: Option<String> = None;
        for p in 0..=m {
            let (x, _, _) = match replay(scn, fam, &scn.key, &scn.iv, 0, p, if p == m { Some(&mut *ctx) } else { None }) {
                Ok(x) => x,
                Err(v) => return v,
            };
            ctx.probe("debug_compared");
            ctx.probe_if(matches!(x.snapshot_remaining(), Some(0)), "debug_at_keystream_end");
            let (xtext, xbuf) = split_debug(&x.debug());
            if x.alg() != yalg {
                violation!("alg_name", "AlgorithmName text differs between two instances of one type: {:?} vs {:?}", x.alg(), yalg);
            }
            if xtext != ytext {
                violation!("debug_text", "Debug text of {} (after {} ops) depends on more than the type: {:?} vs {:?} for an instance with another key, IV and history", scn.mode, p, xtext, ytext);
            }
            if let Inst::S(s) = &x {
                if s.core_debug() != ycore {
                    violation!("debug_text", "Debug text of the core of {} depends on more than the type: {:?} vs {:?}", scn.mode, s.core_debug(), ycore);
                }
            }
            if xbuf != ybuf && deferred.is_none() {
                // reported after everything else has been compared, so that this recorded finding
                // never hides another difference
                deferred = Some(format!("Debug of the byte-stream alias {} prints its unconsumed keystream: after {} ops {:?}, other instance {:?}", scn.mode, p, xbuf, ybuf));
            }
            ctx.fp.s(&xtext);
        }
        if let Some(d) = deferred {
            violation!("wrapper_debug_buffer_data", "{}", d);
        }
        return Verdict::Ok;
    }
    // ---------------- zeroize: drop after every prefix
    for p in 0..=m {
        let (inst, bytes, seeked) = match replay(scn, fam, &scn.key, &scn.iv, 0, p, if p == m { Some(&mut *ctx) } else { None }) {
            Ok(x) => x,
            Err(v) => return v,
        };
        ctx.probe("drop_points");
        ctx.fault("drop_at_history_prefix");
        ctx.probe_if(matches!(inst, Inst::S(_) | Inst::F(_)) && bytes % bs != 0, "drop_mid_block");
        ctx.probe_if(seeked, "drop_after_seek");
        // secrets
        let mut wins: Vec<[u8; 8]> = Vec::new();
        windows(&scn.iv, &mut wins);
        for blk in scn.iv.chunks(bs) {
            // CFB and BelT-CTR keep E(IV), not the IV
            if blk.len() == bs {
                let mut e = blk.to_vec();
                prim_enc(scn.cipher, &scn.key, &mut e);
                windows(&e, &mut wins);
            }
        }
        if let Some(p) = inst.block_pos() {
            // the block counter is state too (property: "IV, nonce, counter and feedback state")
            windows(&p.to_le_bytes(), &mut wins);
            ctx.probe_if(p > u32::MAX as u128, "drop_far_position");
        }
        let exp = inst.export();
        let exp_bytes = match &exp {
            Some(Exp::Iv(v)) => v.clone(),
            Some(Exp::Buf(b, _)) => b.clone(),
            None => Vec::new(),
        };
        windows(&exp_bytes, &mut wins);
        for blk in exp_bytes.chunks(bs) {
            if blk.len() == bs {
                let mut e = blk.to_vec();
                prim_enc(scn.cipher, &scn.key, &mut e);
                windows(&e, &mut wins);
            }
        }
        // next keystream blocks from a twin that replayed the same prefix
        if let Ok((mut twin, _, _)) = replay(scn, fam, &scn.key, &scn.iv, 1, p, None) {
            let n = 2 * bs.max(twin.unit()) / twin.unit() * twin.unit();
            let z = vec![0u8; n];
            let mut op = Op::new("data").via(match &twin {
                Inst::C(_) => 4,
                Inst::S(_) => 0, // try_apply_keystream: at the end of the keystream this is an Err, not a panic
                _ => 3,
            });
            op.n = (n / twin.unit()) as u64;
            if scn.mode.starts_with("cfb8") {
                // one byte of keystream per block: nothing of 8 bytes to look for
            } else if let Ok(ks) = twin.step(&op, &z, vec![0u8; n]) {
                if !scn.mode.starts_with("cbc") && !scn.mode.starts_with("pcbc") && !scn.mode.starts_with("ige") {
                    windows(&ks, &mut wins);
                }
            }
        }
        let live = inst.peek();
        ctx.probe_if(find(&live, &wins).is_some(), "live_state_seen");
        let after = inst.drop_scan();
        ctx.fp.u(after.len() as u64);
        match find(&after, &wins) {
            Some((at, w)) => {
                if ZEROIZE_ON {
                    violation!("residue", "{} (block size {}): after drop following {} of {} ops, bytes {}..{} of the object's storage still hold {} (a window of the IV, the exported state, its image under E, or the next keystream)", scn.mode, bs, p, m, at, at + 8, hexs(&w));
                } else {
                    ctx.probe(intern(&format!("control_residue:{}:{}", fam, scn.mode)));
                }
            }
            None => {
                if !ZEROIZE_ON {
                    ctx.probe(intern(&format!("control_clean:{}:{}", fam, scn.mode)));
                }
            }
        }
    }
    Verdict::Ok
}

/// every (family, type) the scan is expected to be able to see
pub fn control_expectations() -> Vec<String> {
    let mut v = Vec::new();
    for fam in 0..4u8 {
        for m in fam_modes(fam) {
            v.push(format!("control_residue:{}:{}", fam, m));
        }
    }
    v
}
