pub mod common;
pub mod c02;
pub mod c03;
pub mod c04;
pub mod c06;
pub mod streamconf;

use crate::engine::CheckDef;

pub fn all() -> Vec<CheckDef> {
    vec![c02::def(), c03::def(), c04::def(), c06::def()]
}
