pub mod common;
pub mod c01;
pub mod c02;
pub mod c03;
pub mod c04;
pub mod c06;
pub mod c07;
pub mod c08;
pub mod c09;
pub mod c10;
pub mod c11;
pub mod c12;
pub mod c13;
pub mod c14;
pub mod c15;
pub mod c16;
pub mod c17;
pub mod inst;
pub mod streamconf;

use crate::engine::CheckDef;

pub fn all() -> Vec<CheckDef> {
    vec![c01::def(), c02::def(), c03::def(), c04::def(), c06::def(), c07::def(), c08::def(), c09::def(), c10::def(), c11::def(), c12::def(), c13::def(), c14::def(), c15::def(), c16::def(), c17::def()]
}
