pub mod common;
pub mod c02;

use crate::engine::CheckDef;

pub fn all() -> Vec<CheckDef> {
    vec![c02::def()]
}
