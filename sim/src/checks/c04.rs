//! C04 - CTR keystream uses the documented counter-block layout in all six flavours.
//! Driver and op alphabet: see streamconf.rs.  Honest note (DESIGN section 2): the property is a
//! pure function; what simulation contributes is the seam observation point ("the block handed
//! to the cipher", so nonce bytes are checked directly, not through E), the per-call backend
//! width, and histories (apply/seek/set_block_pos) that reach wrapping counters and far indices.

use super::common::*;
use super::streamconf::{Conf, stream_conformance};
use crate::engine::{CheckDef, Ctx, Verdict};
use crate::invalid;
use crate::model::{self, Flavor};
use crate::prng::Rng;
use crate::scn::{Op, Scn};
use crate::sobj::{N_APPLY_FORMS, N_KS_VIA};

pub fn def() -> CheckDef {
    CheckDef {
        id: "C04",
        level: "exploration",
        runs_quick: 600_000,
        runs_thorough: 20_000_000,
        rule: "seeded apply/seek histories on the six Ctr* byte-stream aliases and ks/set_block_pos histories on CtrCore, over the harness cipher (block sizes: multiples of the counter size incl. multi-chunk nonces and 240..252-byte blocks; width per call from {1,2,3,5,8}) or AES-128/Magma/Kuznyechik; IV counter fields biased to 0, 1, 2^k-1, 2^w-1-k; start positions small, near 2^32 bytes, near 2^36, near the end of the keystream; every block crossing the cipher seam must equal layout(IV, i) and output must be input XOR E(layout). distinct = distinct (flavour, front end, block size, cipher, policy, op/form/offset-class sequence); non-trivial = >= 1 keystream byte",
        required_probes: &["counter_field_wraps", "multi_chunk_nonce", "block_index_ge_2_32", "par_keystream_block", "seek_inside_block", "le_flavour", "ctr64le", "ctr128le", "set_block_pos", "restart_from_exported_state"],
        r#gen,
        exec,
        components: "real code: ctr crate (CtrCore, six flavours) and cipher's StreamCipherCoreWrapper; stub: block cipher (SimCipher/SimCipherEnc) in most runs, AES-128/Magma/Kuznyechik in the rest; oracle: ctr_layout() in sim/src/model.rs applied to the recorded seam trace",
        assumptions: &["layout function and toy permutation are correct (self-tested)", "cipher crate wrapper trusted except for known findings", "sampling, not proof"],
        nondet_is_violation: false,
    }
}

pub const CTR_MODES: [&str; 6] = ["ctr32be", "ctr32le", "ctr64be", "ctr64le", "ctr128be", "ctr128le"];

pub fn flavor_of(mode: &str) -> Option<Flavor> {
    let bits = if mode.starts_with("ctr32") {
        32
    } else if mode.starts_with("ctr64") {
        64
    } else if mode.starts_with("ctr128") {
        128
    } else {
        return None;
    };
    Some(Flavor { bits, be: mode.ends_with("be") })
}

pub fn limit_blocks(fl: Flavor) -> u128 {
    if fl.bits == 128 { u128::MAX } else { (1u128 << fl.bits) - 1 }
}

/// IV whose counter field is biased to the interesting values
pub fn gen_ctr_iv(rng: &mut Rng, fl: Flavor, bs: usize) -> Vec<u8> {
    let mut iv = gen_iv(rng, bs);
    let w = (fl.bits / 8) as usize;
    let maxv: u128 = if fl.bits == 128 { u128::MAX } else { (1u128 << fl.bits) - 1 };
    let v: u128 = match rng.below(11) {
        0 => 0,
        1 => 1,
        2 => 0xff,
        3 => 0xffff,
        4 => (1u128 << 31) - 1,
        5 => (1u128 << 32) - 1,
        6 => maxv - rng.below(40) as u128,
        // a carry inside the field: low half (or low word) at all-ones, the rest random
        7 => (rng.u128() << 64) | (u64::MAX - rng.below(40)) as u128,
        8 => (rng.u128() << 32) | (u32::MAX as u128 - rng.below(40) as u128),
        _ => rng.u128(),
    } & maxv;
    for k in 0..w {
        let byte = (v >> (8 * k)) as u8;
        if fl.be {
            iv[bs - 1 - k] = byte;
        } else {
            iv[k] = byte;
        }
    }
    iv
}

/// interesting byte positions below the keystream end
pub fn gen_pos(rng: &mut Rng, limit_blocks: u128, bs: usize) -> u128 {
    let bsu = bs as u128;
    let end = limit_blocks.saturating_mul(bsu);
    let p = match rng.below(10) {
        0 => 0,
        1 | 2 => rng.below(8 * bs as u64) as u128,
        3 => (1u128 << 32) - rng.below(3 * bs as u64) as u128 + rng.below(bs as u64) as u128,
        4 => ((1u128 << 32) - 2) * bsu + rng.below(200) as u128,
        5 => (1u128 << 36) + rng.below(1000) as u128,
        6 => end.saturating_sub(1 + rng.below(64 * bs as u64) as u128),
        7 => (limit_blocks / 2).saturating_mul(bsu).saturating_add(rng.below(bs as u64) as u128),
        _ => rng.below(1 << 20) as u128,
    };
    p.min(end.saturating_sub(1))
}

fn r#gen(rng: &mut Rng, thorough: bool) -> Scn {
    let mode = *rng.pick(&CTR_MODES);
    let fl = flavor_of(mode).unwrap();
    let pool = 64 + rng.usize(300);
    let mut s = base_scn(rng, "C04", mode, false, 1, pool);
    s.iv = gen_ctr_iv(rng, fl, s.bs);
    let lim = limit_blocks(fl);
    let core = rng.chance(2, 5);
    s.set_num("front", core as u128);
    s.set_num("ctor", rng.below(4) as u128);
    let w = s.pol[0].max_width() as u64;
    let nops = 1 + rng.usize(if thorough { 10 } else { 7 });
    for _ in 0..nops {
        if core {
            match rng.below(10) {
                0 | 1 => {
                    let p = gen_pos(rng, lim, s.bs) / s.bs as u128;
                    s.ops.push(Op::new("setpos").p(p.min(lim - 64)));
                }
                2 => s.ops.push(Op::new(if rng.chance(1, 2) { "clone" } else { "restart" })),
                3 => {
                    s.ops.push(Op::new("wrap"));
                    // continue with wrapper ops
                    s.ops.push(Op::new("apply").n(rng.nbytes(5 * s.bs as u64, s.bs as u64)).via(rng.below(N_APPLY_FORMS as u64) as u8));
                    break;
                }
                _ => s.ops.push(Op::new("ks").n(rng.nblocks(20, w)).via(rng.below(N_KS_VIA as u64) as u8).p(rng.next() as u128)),
            }
        } else {
            match rng.below(10) {
                0 | 1 | 2 => {
                    let p = gen_pos(rng, lim, s.bs).min(lim.saturating_mul(s.bs as u128).saturating_sub(64 * 300));
                    s.ops.push(Op::new("seek").p(p).ty(rng.below(2) as u8));
                }
                3 => s.ops.push(Op::new(if rng.chance(1, 2) { "clone" } else { "restart" })),
                _ => s.ops.push(Op::new("apply").n(rng.nbytes(6 * s.bs as u64, s.bs as u64)).via(rng.below(N_APPLY_FORMS as u64) as u8)),
            }
        }
    }
    s
}

fn exec(scn: &Scn, ctx: &mut Ctx) -> Verdict {
    let fl = match flavor_of(&scn.mode) {
        Some(f) => f,
        None => invalid!("mode"),
    };
    if scn.iv.len() != scn.bs || scn.bs % (fl.bits as usize / 8) != 0 {
        invalid!("iv/bs");
    }
    let iv = scn.iv.clone();
    let layout = move |i: u128| model::ctr_layout(fl, &iv, i);
    // reach probes about the configuration
    let w = (fl.bits / 8) as usize;
    let field: u128 = if fl.be {
        scn.iv[scn.bs - w..].iter().fold(0u128, |a, b| (a << 8) | *b as u128)
    } else {
        scn.iv[..w].iter().rev().fold(0u128, |a, b| (a << 8) | *b as u128)
    };
    let maxv: u128 = if fl.bits == 128 { u128::MAX } else { (1u128 << fl.bits) - 1 };
    ctx.probe_if(scn.bs > w, "multi_chunk_nonce");
    ctx.probe_if(!fl.be, "le_flavour");
    ctx.probe_if(scn.mode == "ctr64le", "ctr64le");
    ctx.probe_if(scn.mode == "ctr128le", "ctr128le");
    let conf = Conf { layout: &layout, limit_blocks: limit_blocks(fl), ctor_events: vec![] };
    let v = stream_conformance(scn, ctx, &conf);
    // did the counter field wrap within this run?
    let reached_blocks = ctx.max_pos;
    ctx.probe_if(v == Verdict::Ok && reached_blocks > maxv - field && ctx.nontrivial, "counter_field_wraps");
    v
}
