//! C08 - byte-stream interfaces give the same bytes however the stream is cut into calls.
//!
//! Twin run, no model.
//!   nums.kind = 0  byte-stream wrappers (6 CTR, Ofb, BeltCtr): A gets apply(n, via=form) pieces
//!                  (zeros allowed), B gets one call on the whole string; optional common start
//!                  offset nums.start reached by seek on both (seekable types)
//!   nums.kind = 1  buffered CFB: A gets bytes(n) pieces, B one call; final get_state compared
//!   nums.kind = 2  one-shot CFB / CFB-8: async(n, via=kind) on m and on its prefix m[..k]
//!                  (nums.k): enc(m)[..k] = enc(m[..k]), same for dec

use super::common::*;
use crate::engine::{CheckDef, Ctx, Verdict};
use crate::factory::{BUF_MODES, MkErr, STREAM_MODES, make_block, make_buf, make_stream};
use crate::prng::Rng;
use crate::scn::{Op, Scn};
use crate::sobj::{N_APPLY_FORMS, SeekFail};
use crate::{invalid, violation};

pub fn def() -> CheckDef {
    CheckDef {
        id: "C08",
        level: "exploration",
        runs_quick: 500_000,
        runs_thorough: 10_000_000,
        rule: "twin runs of the real code: a byte string cut by a seeded composition into pieces (empty pieces, pieces ending exactly on a block boundary followed by 1-byte pieces, pieces straddling 1..many boundaries; each piece through one of 6 call forms) vs one call on the whole string, for the 8 byte-stream aliases (from offset 0 or after a common seek) and BufEncryptor/BufDecryptor; one-shot CFB/CFB-8 compared with the one-shot on a prefix. distinct = distinct (type, block size, cipher, policy, start offset class, per-piece (cursor, length mod bs, form) sequence); non-trivial = >= 2 non-empty pieces or a proper prefix",
        required_probes: &["empty_piece_mid_block", "piece_ends_on_boundary_then_short", "straddle_many", "ctr32", "ctr64", "bs_not_16", "all_cursors_small_bs", "prefix_partial_block"],
        r#gen,
        exec,
        components: "real code: ctr, ofb, belt-ctr, cfb-mode, cfb8 crates and cipher's StreamCipherCoreWrapper / AsyncStreamCipher, both twins; stub: block cipher (SimCipher/SimCipherEnc) in most runs, real ciphers in the rest; no reference model",
        assumptions: &["toy permutation is a bijection (self-tested)", "sampling, not proof"],
        nondet_is_violation: false,
    }
}

fn piece(rng: &mut Rng, bs: u64, cursor: u64) -> u64 {
    match rng.below(13) {
        0 => 0,
        1 => 1,
        2 => (bs - cursor % bs) % bs,          // up to the next boundary
        3 => (bs - cursor % bs) % bs + 1,      // one past it
        4 => ((bs - cursor % bs) % bs + bs).saturating_sub(1),
        5 => bs,
        6 => 2 * bs + 1,
        7 => 3 * bs + rng.below(bs),
        8 => 5 * bs + rng.below(3 * bs),
        9 => (9 + rng.below(if bs > 200 { 4 } else { 16 })) * bs + rng.below(bs), // one long piece
        _ => rng.below(2 * bs + 2),
    }
}

fn r#gen(rng: &mut Rng, thorough: bool) -> Scn {
    let kind = match rng.below(10) {
        0..=5 => 0,
        6 | 7 => 1,
        _ => 2,
    };
    let pool = 64 + rng.usize(400);
    let maxops = if thorough { 12 } else { 8 };
    let mut s;
    match kind {
        0 => {
            let mode = *rng.pick(&STREAM_MODES);
            s = base_scn(rng, "C08", mode, false, 2, pool);
            if let Some(fl) = super::c04::flavor_of(mode) {
                s.iv = super::c04::gen_ctr_iv(rng, fl, s.bs);
            }
            if mode != "ofb" && rng.chance(1, 3) {
                s.set_num("start", rng.below(5 * s.bs as u64) as u128);
            }
            let mut cur = s.num("start") as u64;
            for _ in 0..1 + rng.usize(maxops) {
                let n = piece(rng, s.bs as u64, cur);
                cur += n;
                s.ops.push(Op::new("apply").n(n).via(rng.below(N_APPLY_FORMS as u64) as u8));
            }
        }
        1 => {
            let mode = *rng.pick(&BUF_MODES);
            s = base_scn(rng, "C08", mode, false, 2, pool);
            let mut cur = 0;
            for _ in 0..1 + rng.usize(maxops) {
                let n = piece(rng, s.bs as u64, cur);
                cur += n;
                s.ops.push(Op::new("bytes").n(n));
            }
        }
        _ => {
            let mode = *rng.pick(&["cfb.enc", "cfb.dec", "cfb8.enc", "cfb8.dec"]);
            s = base_scn(rng, "C08", mode, false, 2, pool);
            let bs = s.bs as u64;
            let n = rng.nbytes(10 * bs, bs);
            s.ops.push(Op::new("async").n(n).via(rng.below(3) as u8).m(rng.below(3)));
            let k = match rng.below(6) {
                0 => n / bs.max(1) * bs,
                1 => (n / bs.max(1) * bs + 1).min(n),
                2 => (n / bs.max(1) * bs).saturating_sub(1),
                _ => rng.below(n + 1),
            };
            s.set_num("k", k as u128);
        }
    }
    s.set_num("kind", kind as u128);
    s
}

fn exec(scn: &Scn, ctx: &mut Ctx) -> Verdict {
    env_setup(scn, false);
    sig_base(ctx, scn);
    let kind = scn.num("kind");
    ctx.sig.u(kind as u64);
    let bs = scn.bs;
    match kind {
        0 => {
            if !STREAM_MODES.contains(&scn.mode.as_str()) {
                invalid!("mode");
            }
            let mk = |tag: u8| make_stream(&scn.mode, bs, scn.cipher, &scn.key, &scn.iv, tag, 0);
            let (mut a, mut b) = match (mk(0), mk(1)) {
                (Ok(a), Ok(b)) => (a, b),
                (Err(MkErr::Unsupported), _) => invalid!("unsupported"),
                _ => violation!("construct", "rejected"),
            };
            let start = scn.num("start");
            if start != 0 {
                if !a.seekable() || start > 1 << 20 {
                    invalid!("start");
                }
                for o in [&mut a, &mut b] {
                    match o.seek(1, start) {
                        Ok(()) => {}
                        Err(SeekFail::Unrepresentable) => invalid!("start"),
                        Err(SeekFail::Err) => violation!("seek_err", "seek({}) failed", start),
                    }
                }
            }
            ctx.sig.u((start as u64 % bs as u64) << 8 | (start as u64 / bs as u64).min(3));
            ctx.probe_if(scn.mode.starts_with("ctr32"), "ctr32");
            ctx.probe_if(scn.mode.starts_with("ctr64"), "ctr64");
            ctx.probe_if(bs != 16, "bs_not_16");
            let total: usize = scn.ops.iter().map(|o| o.n as usize).sum();
            if total > 1 << 16 || scn.ops.iter().any(|o| o.k != "apply") {
                invalid!("ops");
            }
            let input = scn.bytes(0, total);
            let mut whole = scn.dirt(1, total);
            if b.apply(0, &input, &mut whole).is_err() {
                violation!("apply_err", "one call on {} bytes failed", total);
            }
            let mut done = 0usize;
            let mut nonempty = 0;
            let mut cursors = std::collections::BTreeSet::new();
            let mut prev_end_boundary = false;
            for (i, op) in scn.ops.iter().enumerate() {
                let n = op.n as usize;
                let form = op.via % N_APPLY_FORMS;
                let cur = (start as usize + done) % bs;
                cursors.insert(cur);
                ctx.sig.u((form as u64) << 24 | (cur as u64) << 12 | ((n % bs) as u64) << 4 | (n / bs).min(3) as u64);
                ctx.probe_if(n == 0 && cur != 0, "empty_piece_mid_block");
                ctx.probe_if(prev_end_boundary && n > 0 && n < bs, "piece_ends_on_boundary_then_short");
                ctx.probe_if(n >= 3 * bs && bs > 1, "straddle_many");
                let mut out = scn.dirt(done, n);
                if a.apply(form, &input[done..done + n], &mut out).is_err() {
                    violation!("apply_err", "piece {} ({} bytes, form {}) failed", i, n, form);
                }
                ctx.fp.bytes(&out);
                if out != whole[done..done + n] {
                    let d = first_diff(&out, &whole[done..done + n]);
                    violation!("output", "piece {} ({} bytes at stream offset {}, cursor {}, form {}): byte {} differs from the single-call result", i, n, done, cur, form, done + d);
                }
                if n > 0 {
                    nonempty += 1;
                    prev_end_boundary = (start as usize + done + n) % bs == 0 && cur != 0;
                }
                done += n;
            }
            ctx.nontrivial = nonempty >= 2;
            ctx.probe_if(bs <= 17 && cursors.len() >= bs.min(4), "all_cursors_small_bs");
            if a.seekable() {
                let (pa, pb) = (a.pos(2), b.pos(2));
                if pa != pb {
                    violation!("state", "final position {:?} (pieces) vs {:?} (one call)", pa, pb);
                }
            }
            Verdict::Ok
        }
        1 => {
            if !BUF_MODES.contains(&scn.mode.as_str()) {
                invalid!("mode");
            }
            let mk = |tag: u8| make_buf(&scn.mode, bs, scn.cipher, &scn.key, &scn.iv, tag, 0, None);
            let (mut a, mut b) = match (mk(0), mk(1)) {
                (Ok(a), Ok(b)) => (a, b),
                (Err(MkErr::Unsupported), _) => invalid!("unsupported"),
                _ => violation!("construct", "rejected"),
            };
            ctx.probe_if(bs != 16, "bs_not_16");
            let total: usize = scn.ops.iter().map(|o| o.n as usize).sum();
            if total > 1 << 16 || scn.ops.iter().any(|o| o.k != "bytes") {
                invalid!("ops");
            }
            let input = scn.bytes(0, total);
            let mut whole = input.clone();
            b.proc(&mut whole);
            let mut done = 0usize;
            let mut nonempty = 0;
            let mut prev_end_boundary = false;
            for (i, op) in scn.ops.iter().enumerate() {
                let n = op.n as usize;
                let cur = done % bs;
                ctx.sig.u((cur as u64) << 12 | ((n % bs) as u64) << 4 | (n / bs).min(3) as u64);
                ctx.probe_if(n == 0 && cur != 0, "empty_piece_mid_block");
                ctx.probe_if(prev_end_boundary && n > 0 && n < bs, "piece_ends_on_boundary_then_short");
                ctx.probe_if(n >= 3 * bs && bs > 1, "straddle_many");
                let mut buf = input[done..done + n].to_vec();
                a.proc(&mut buf);
                ctx.fp.bytes(&buf);
                if buf != whole[done..done + n] {
                    let d = first_diff(&buf, &whole[done..done + n]);
                    violation!("output", "piece {} ({} bytes at stream offset {}, cursor {}): byte {} differs from the single-call result", i, n, done, cur, done + d);
                }
                if n > 0 {
                    nonempty += 1;
                    prev_end_boundary = (done + n) % bs == 0 && cur != 0;
                }
                done += n;
            }
            ctx.nontrivial = nonempty >= 2;
            if a.state() != b.state() {
                violation!("state", "final get_state differs: pieces {:?} vs one call {:?}", a.state().1, b.state().1);
            }
            Verdict::Ok
        }
        _ => {
            let op = match scn.ops.first() {
                Some(o) if o.k == "async" => o,
                _ => invalid!("op"),
            };
            let n = op.n as usize;
            let k = scn.num("k") as usize;
            if k > n || n > 1 << 16 {
                invalid!("k");
            }
            let (k1, k2) = (3 + op.via % 3, 3 + (op.m % 3) as u8);
            let mk = |tag: u8| make_block(&scn.mode, bs, scn.cipher, &scn.key, &scn.iv, tag, 0);
            let (a, b) = match (mk(0), mk(1)) {
                (Ok(a), Ok(b)) => (a, b),
                (Err(MkErr::Unsupported), _) => invalid!("unsupported"),
                _ => violation!("construct", "rejected"),
            };
            if !a.has_async() {
                invalid!("no async");
            }
            ctx.sig.u((k1 as u64) << 40 | (k2 as u64) << 32 | ((n % bs) as u64) << 20 | ((k % bs) as u64) << 8 | (k / bs).min(3) as u64);
            ctx.probe_if(k % bs != 0, "prefix_partial_block");
            ctx.probe_if(bs != 16, "bs_not_16");
            ctx.nontrivial = k < n && k > 0;
            let input = scn.bytes(0, n);
            let mut full = scn.dirt(0, n);
            let mut pre = scn.dirt(5, k);
            let ra = a.finish(k1, 0, &input, &mut full);
            let rb = b.finish(k2, 0, &input[..k], &mut pre);
            if ra != Ok(n) || rb != Ok(k) {
                violation!("async_len", "one-shot on {} / {} bytes returned {:?} / {:?}", n, k, ra, rb);
            }
            ctx.fp.bytes(&full);
            if full[..k] != pre[..] {
                let d = first_diff(&full[..k], &pre);
                violation!("prefix", "{} one-shot: output for the {}-byte message and for its {}-byte prefix differ at byte {}", scn.mode, n, k, d);
            }
            Verdict::Ok
        }
    }
}
