//! C13 - bad lengths are rejected without side effects; no operation panics.
//!
//! (a) Injected contract violations, nums.fault:
//!   0 cts message shorter than one block (all six types, four call forms, both directions)
//!   1 *_blocks_b2b with unequal block counts, in the middle of a valid history
//!   2 AsyncStreamCipher *_b2b with unequal lengths
//!   3 apply_keystream_b2b with unequal lengths, in the middle of a valid history
//!   4 cts *_b2b with unequal lengths
//!   5 decrypt_padded{,_b2b,_vec} of a length that is not a multiple of the block size
//!   6 construction from key / IV slices of the wrong length (IGE: the IV is two blocks)
//!   Oracle: Err; the caller's buffers are byte-identical to the snapshot; for stateful types the
//!   instance afterwards behaves like a twin that never saw the call; the valid neighbour
//!   (one block, equal lengths, whole blocks, right lengths) is accepted.
//! (b) nums.fault = 7: no-panic sweep - a legal history over any stateful type (data in every
//!   form and size class, seek / set_block_pos anywhere in the keystream, restart from exported
//!   state, clone, closing padded / async one-shot with every padding) under catch_unwind.

use super::common::*;
use super::inst::*;
use crate::engine::{CheckDef, Ctx, Verdict};
use crate::factory::*;
use crate::obj::PADS;
use crate::prng::Rng;
use crate::scn::{Op, Scn};
use crate::sobj::N_CTS_FORMS;
use crate::{invalid, violation};

pub fn def() -> CheckDef {
    CheckDef {
        id: "C13",
        level: "fault_enumeration",
        runs_quick: 600_000,
        runs_thorough: 15_000_000,
        rule: "fault injection of contract-violating calls: each of the seven rejected-call kinds is enumerated over every public type that exposes it (cts x6, block modes x12, async x4, byte streams x8, padded decrypt x6 with 5 paddings and 3 forms, four slice constructors over all types) with sampled sizes/positions, inside otherwise valid histories; plus a no-panic sweep of legal histories (every op alphabet, lengths 0,1,bs-1,bs,bs+1,many, block sizes 1..255, all IV classes, counter positions across the whole range, restart from valid exported state). distinct = distinct (fault kind, type, block size, cipher, sizes class, history shape); non-trivial = the injected call was executed (a) / >= 2 operations (b)",
        required_probes: &["cts_short", "cts_exactly_one_block_ok", "blocks_b2b_unequal", "async_b2b_unequal", "stream_b2b_unequal", "cts_b2b_unequal", "padded_dec_bad_len", "ctor_bad_key", "ctor_bad_iv", "ctor_ige_one_block_iv", "sweep_seek_far", "sweep_restart", "sweep_padded", "sweep_bs255", "sweep_bs1", "sweep_cts_valid_lengths", "sweep_cts_width_1", "sweep_seek_at_end"],
        r#gen,
        exec,
        components: "real code: all nine crates and cipher's front ends; stub: block cipher in most runs, real ciphers in the rest; every run under catch_unwind (a panic raised by the code under test is a violation, one raised by the harness a harness error)",
        assumptions: &["unchanged buffers are demanded for the rejected-call kinds the property lists, not after a malformed-padding error", "negative i32 seek positions and positions beyond the keystream are outside the stated domain", "sampling of sizes and positions; fault kinds x types enumerated"],
        nondet_is_violation: false,
    }
}

fn r#gen(rng: &mut Rng, thorough: bool) -> Scn {
    let fault = match rng.below(20) {
        0..=6 => 7,
        7 | 8 => 8,
        _ => rng.below(7),
    };
    let pool = 64 + rng.usize(400);
    let mut s;
    match fault {
        8 => {
            // legal cts calls of every length >= one block: must succeed, must not panic
            let mode = *rng.pick(&CTS_MODES);
            s = base_scn(rng, "C13", mode, true, 1, pool);
            let bs = s.bs as u64;
            let n = bs + rng.nbytes(if bs == 255 { 10 * bs } else { 40 * bs }, bs);
            s.ops.push(Op::new("cts").n(n).via(rng.below(N_CTS_FORMS as u64) as u8).ty(rng.below(2) as u8));
        }
        0 | 4 => {
            let mode = *rng.pick(&CTS_MODES);
            s = base_scn(rng, "C13", mode, true, 1, pool);
            let bs = s.bs as u64;
            if fault == 0 {
                let n = match rng.below(5) {
                    0 => 0,
                    1 => bs - 1,
                    2 => bs, // the valid neighbour
                    _ => rng.below(bs),
                };
                s.ops.push(Op::new("cts").n(n).via(rng.below(N_CTS_FORMS as u64) as u8).ty(rng.below(2) as u8));
            } else {
                let n = bs + rng.below(4 * bs);
                let m = match rng.below(4) {
                    0 => n, // valid neighbour
                    1 => n + 1,
                    2 => n - 1,
                    _ => rng.below(6 * bs),
                };
                s.ops.push(Op::new("cts").n(n).m(m).via(1).ty(rng.below(2) as u8));
            }
        }
        1 | 2 | 5 => {
            let modes: Vec<&str> = BLOCK_MODES.iter().copied().filter(|m| match fault {
                2 => m.starts_with("cfb"),
                5 => m.ends_with("dec"),
                _ => true,
            }).collect();
            let mode = *rng.pick(&modes);
            s = base_scn(rng, "C13", mode, false, 1, pool);
            let bs = s.bs as u64;
            let g = if mode.starts_with("cfb8") { 1 } else { bs };
            for _ in 0..rng.usize(3) {
                s.ops.push(gen_data_op(rng, FAM_BLOCK, mode, s.bs, 8));
            }
            match fault {
                1 => {
                    let n = rng.below(6);
                    let m = if rng.chance(1, 4) { n } else { rng.below(6) };
                    s.ops.push(Op::new("bad_blocks").n(n).m(m));
                    s.ops.push(gen_data_op(rng, FAM_BLOCK, mode, s.bs, 8));
                }
                2 => {
                    let n = rng.nbytes(5 * bs, bs);
                    let m = if rng.chance(1, 4) { n } else { rng.nbytes(5 * bs, bs) };
                    s.ops.push(Op::new("bad_async").n(n).m(m));
                }
                _ => {
                    let n = if rng.chance(1, 4) { g * (1 + rng.below(4)) } else { g * rng.below(5) + 1 + rng.below(g.max(2) - 1) };
                    s.ops.push(Op::new("bad_padded").n(n).via(rng.below(3) as u8).ty(rng.below(5) as u8));
                }
            }
        }
        3 => {
            let mode = *rng.pick(&STREAM_MODES);
            s = base_scn(rng, "C13", mode, false, 1, pool);
            let bs = s.bs as u64;
            for _ in 0..rng.usize(3) {
                s.ops.push(gen_data_op(rng, FAM_STREAM, mode, s.bs, 8));
            }
            let n = rng.nbytes(4 * bs, bs);
            let m = if rng.chance(1, 4) { n } else { rng.nbytes(4 * bs, bs) };
            s.ops.push(Op::new("bad_apply").n(n).m(m));
            s.ops.push(gen_data_op(rng, FAM_STREAM, mode, s.bs, 8));
        }
        6 => {
            let group = rng.below(4);
            let mode: &str = match group {
                0 => *rng.pick(&BLOCK_MODES),
                1 => *rng.pick(&STREAM_MODES),
                2 => *rng.pick(&BUF_MODES),
                _ => *rng.pick(&CTS_MODES),
            };
            s = base_scn(rng, "C13", mode, group == 3, 1, pool);
            s.set_num("group", group as u128);
            s.set_num("ctor", 2 + rng.below(2) as u128);
            let kl = s.key.len() as u64;
            let il = iv_len(mode, s.bs) as u64;
            let pick = |rng: &mut Rng, right: u64, alt: u64| match rng.below(6) {
                0 | 1 => right,
                2 => right + 1,
                3 => right.saturating_sub(1),
                4 => alt,
                _ => rng.below(2 * right + 2),
            };
            let nk = pick(rng, kl, 0);
            let ni = pick(rng, il, if mode.starts_with("ige") { il / 2 } else { 2 * il });
            s.set_num("klen", nk as u128);
            s.set_num("ivlen", ni as u128);
        }
        _ => {
            let fam = pick_fam(rng);
            let mode = *rng.pick(fam_modes(fam));
            s = base_scn(rng, "C13", mode, false, 1, pool);
            s.set_num("fam", fam as u128);
            let lim = super::c04::flavor_of(mode).map(super::c04::limit_blocks).unwrap_or(u128::MAX);
            if let Some(fl) = super::c04::flavor_of(mode) {
                s.iv = super::c04::gen_ctr_iv(rng, fl, s.bs);
            }
            let w = s.pol[0].max_width() as u64;
            for _ in 0..1 + rng.usize(if thorough { 10 } else { 7 }) {
                let op = match rng.below(12) {
                    0 | 1 if fam == FAM_STREAM && mode != "ofb" => {
                        let p = super::c04::gen_pos(rng, lim.min(u128::MAX / s.bs as u128 / 2), s.bs);
                        Op::new("seek").p(p.saturating_sub(1 << 16)).ty(rng.below(2) as u8)
                    }
                    0 | 1 if fam == FAM_CORE && mode != "ofb" => Op::new("setpos").p(match rng.below(4) {
                        0 => 0,
                        1 => lim - 1 - rng.below(4096) as u128 - 64,
                        2 => rng.u128() % (lim - 4096),
                        _ => rng.below(1 << 33) as u128,
                    }),
                    2 => Op::new("restart"),
                    3 => Op::new("clone"),
                    _ => gen_data_op(rng, fam, mode, s.bs, w),
                };
                s.ops.push(op);
            }
            if fam == FAM_STREAM && lim < (1u128 << 100) && rng.chance(1, 5) {
                // closing try_seek at or just past the end of the keystream: whatever it returns,
                // it may not panic.  Last operation only - the state afterwards is not used.
                let bsz = s.bs as u128;
                let end = lim * bsz;
                let p = match rng.below(6) {
                    0 => end,
                    1 => end + 1,
                    2 => end + bsz - 1,
                    3 => end + rng.below(s.bs as u64) as u128,
                    4 => end + bsz + rng.below(2 * s.bs as u64) as u128,
                    _ => end - 1 - rng.below(3 * s.bs as u64) as u128, // just below the limit
                };
                s.ops.push(Op::new("seek").p(p).ty(rng.below(2) as u8));
            }
            if fam == FAM_BLOCK && rng.chance(1, 2) {
                let g = if mode.starts_with("cfb8") { 1 } else { s.bs as u64 };
                // keep the _vec + NoPadding + partial block combination (known finding) rare
                let mut pad = rng.below(5) as u8;
                let via = rng.below(3) as u8;
                let n = rng.nbytes(6 * g, g);
                if pad == 2 && via == 2 && n % g != 0 && mode.ends_with("enc") && !rng.chance(1, 8) {
                    pad = 0;
                }
                s.ops.push(Op::new("padded").n(n).via(via).ty(pad));
            }
        }
    }
    s.set_num("fault", fault as u128);
    s
}

fn exec(scn: &Scn, ctx: &mut Ctx) -> Verdict {
    // the twin that "never saw the rejected call" must differ from the instance under test in
    // nothing else: same fixed backend width for every instance of a run
    let mut s2 = scn.clone();
    let w = scn.pol[0].max_width();
    s2.pol = vec![crate::simcipher::Policy::Fixed(w); 8];
    env_setup(&s2, false);
    sig_base(ctx, &s2);
    let fault = scn.num("fault");
    ctx.sig.u(fault as u64);
    let bs = scn.bs;
    match fault {
        0 | 4 | 8 => {
            if !CTS_MODES.contains(&scn.mode.as_str()) {
                invalid!("mode");
            }
            let op = match scn.ops.first() {
                Some(o) if o.k == "cts" => o,
                _ => invalid!("op"),
            };
            let dec = op.ty % 2 == 1;
            ctx.probe_if(fault == 8, "sweep_cts_valid_lengths");
            ctx.probe_if(fault == 8 && w == 1, "sweep_cts_width_1");
            let (n, m, form) = if fault != 4 { (op.n as usize, op.n as usize, op.via % N_CTS_FORMS) } else { (op.n as usize, op.m as usize, 1) };
            if n > 1 << 14 || m > 1 << 14 {
                invalid!("len");
            }
            let bad = n < bs || n != m;
            ctx.sig.u((form as u64) << 20 | (dec as u64) << 16 | (bad as u64) << 12 | ((n < bs) as u64) << 8 | (n == m) as u64);
            let inp = scn.bytes(0, n);
            let snap = scn.dirt(0, m);
            let mut out = snap.clone();
            let r = match cts_run(&scn.mode, bs, scn.cipher, &scn.key, &scn.iv, 0, 0, dec, form, &inp, &mut out) {
                Err(MkErr::Unsupported) => invalid!("unsupported"),
                Err(_) => violation!("construct", "rejected"),
                Ok(r) => r,
            };
            ctx.nontrivial = true;
            if bad {
                ctx.fault(if fault == 0 { "cts_short_message" } else { "cts_b2b_unequal_lengths" });
                ctx.probe(if fault == 0 { "cts_short" } else { "cts_b2b_unequal" });
                if r.is_ok() {
                    violation!("accepted", "{} {} accepted a {}-byte input with a {}-byte output (block size {}, form {})", scn.mode, if dec { "decrypt" } else { "encrypt" }, n, m, bs, form);
                }
                // in-place forms: `out` was overwritten with the input by the harness itself
                let want = if crate::sobj::cts_form_in_place(form) { inp.clone() } else { snap };
                if out != want {
                    violation!("buffer_modified", "{} {} rejected the call but modified the caller's buffer at byte {}", scn.mode, if dec { "decrypt" } else { "encrypt" }, first_diff(&out, &want));
                }
            } else {
                ctx.probe_if(n == bs, "cts_exactly_one_block_ok");
                if r.is_err() {
                    violation!("valid_rejected", "{} rejected a valid {}-byte message (block size {})", scn.mode, n, bs);
                }
            }
            Verdict::Ok
        }
        1 | 2 | 5 => {
            if !BLOCK_MODES.contains(&scn.mode.as_str()) {
                invalid!("mode");
            }
            let mk = |tag: u8| make_block(&scn.mode, bs, scn.cipher, &scn.key, &scn.iv, tag, 0);
            let (mut a, mut b) = match (mk(0), mk(1)) {
                (Ok(a), Ok(b)) => (a, b),
                (Err(MkErr::Unsupported), _) => invalid!("unsupported"),
                _ => violation!("construct", "rejected"),
            };
            let g = a.bs();
            let mut injected = false;
            for (i, op) in scn.ops.iter().enumerate() {
                ctx.sig.s(&op.k);
                match op.k.as_str() {
                    "data" => {
                        let n = op.n as usize * g;
                        if n > 1 << 14 {
                            invalid!("len");
                        }
                        let inp = op_input(scn, i, n);
                        let (mut oa, mut ob) = (scn.dirt(i, n), scn.dirt(i, n));
                        a.proc(op.via % crate::obj::N_VIA, op.p as u64, &inp, &mut oa);
                        b.proc(op.via % crate::obj::N_VIA, op.p as u64, &inp, &mut ob);
                        if injected && (oa != ob || a.export() != b.export()) {
                            violation!("state_damaged", "op {}: after a rejected call the instance no longer behaves like a twin that never saw it", i);
                        }
                    }
                    "bad_blocks" => {
                        let (n, m) = (op.n as usize * g, op.m as usize * g);
                        if n > 1 << 12 || m > 1 << 12 {
                            invalid!("len");
                        }
                        let inp = op_input(scn, i, n);
                        let snap = scn.dirt(i, m);
                        let mut out = snap.clone();
                        let r = a.blocks_b2b_raw(&inp, &mut out);
                        ctx.nontrivial = true;
                        ctx.sig.u((n != m) as u64);
                        if n != m {
                            injected = true;
                            ctx.fault("blocks_b2b_unequal_lengths");
                            ctx.probe("blocks_b2b_unequal");
                            if r.is_ok() {
                                violation!("accepted", "op {}: {} *_blocks_b2b accepted {} input blocks and {} output blocks", i, scn.mode, op.n, op.m);
                            }
                            if out != snap {
                                violation!("buffer_modified", "op {}: rejected *_blocks_b2b modified the output buffer at byte {}", i, first_diff(&out, &snap));
                            }
                        } else {
                            if r.is_err() {
                                violation!("valid_rejected", "op {}: *_blocks_b2b rejected equal lengths", i);
                            }
                            let mut ob = scn.dirt(i, m);
                            let _ = b.blocks_b2b_raw(&inp, &mut ob);
                        }
                    }
                    "bad_async" => {
                        if !a.has_async() {
                            invalid!("no async");
                        }
                        let (n, m) = (op.n as usize, op.m as usize);
                        if n > 1 << 14 || m > 1 << 14 {
                            invalid!("len");
                        }
                        let inp = op_input(scn, i, n);
                        let snap = scn.dirt(i, m);
                        let mut out = snap.clone();
                        let r = a.finish(4, 0, &inp, &mut out);
                        ctx.nontrivial = true;
                        ctx.sig.u((n != m) as u64);
                        if n != m {
                            ctx.fault("async_b2b_unequal_lengths");
                            ctx.probe("async_b2b_unequal");
                            if r.is_ok() {
                                violation!("accepted", "{} one-shot *_b2b accepted a {}-byte input with a {}-byte output", scn.mode, n, m);
                            }
                            if out != snap {
                                violation!("buffer_modified", "rejected one-shot *_b2b modified the output buffer at byte {}", first_diff(&out, &snap));
                            }
                        } else if r != Ok(n) {
                            violation!("valid_rejected", "one-shot *_b2b rejected equal lengths ({:?})", r);
                        }
                        return Verdict::Ok;
                    }
                    "bad_padded" => {
                        if a.is_enc() {
                            invalid!("decryptors only");
                        }
                        let n = op.n as usize;
                        if n > 1 << 14 {
                            invalid!("len");
                        }
                        let kind = op.via % 3;
                        let pad = op.ty % 5;
                        let inp = op_input(scn, i, n);
                        let snap = scn.dirt(i, n);
                        let mut out = snap.clone();
                        let r = a.finish(kind, pad, &inp, &mut out);
                        ctx.nontrivial = true;
                        ctx.sig.u((kind as u64) << 8 | (pad as u64) << 4 | (n % g != 0) as u64);
                        if n % g != 0 {
                            ctx.fault("padded_decrypt_length_not_multiple_of_block");
                            ctx.probe("padded_dec_bad_len");
                            if r.is_ok() {
                                violation!("accepted", "{} decrypt_padded (form {}, {}) accepted {} bytes with block size {}", scn.mode, kind, PADS[pad as usize], n, g);
                            }
                            // form 0 is in place: the harness itself put the input there
                            let want = if kind == 0 { inp.clone() } else { snap };
                            if out != want {
                                violation!("buffer_modified", "{} decrypt_padded (form {}) rejected {} bytes but modified the caller's buffer at byte {}", scn.mode, kind, n, first_diff(&out, &want));
                            }
                        } else if pad == 2 && r != Ok(n) {
                            violation!("valid_rejected", "{} decrypt_padded::<NoPadding> rejected {} whole blocks: {:?}", scn.mode, n / g, r);
                        }
                        return Verdict::Ok;
                    }
                    _ => invalid!("op"),
                }
            }
            Verdict::Ok
        }
        3 => {
            if !STREAM_MODES.contains(&scn.mode.as_str()) {
                invalid!("mode");
            }
            let mk = |tag: u8| make_stream(&scn.mode, bs, scn.cipher, &scn.key, &scn.iv, tag, 0);
            let (mut a, mut b) = match (mk(0), mk(1)) {
                (Ok(a), Ok(b)) => (a, b),
                (Err(MkErr::Unsupported), _) => invalid!("unsupported"),
                _ => violation!("construct", "rejected"),
            };
            let mut injected = false;
            for (i, op) in scn.ops.iter().enumerate() {
                ctx.sig.s(&op.k);
                match op.k.as_str() {
                    "data" => {
                        let n = op.n as usize;
                        if n > 1 << 14 {
                            invalid!("len");
                        }
                        let inp = op_input(scn, i, n);
                        let (mut oa, mut ob) = (scn.dirt(i, n), scn.dirt(i, n));
                        let form = op.via % crate::sobj::N_APPLY_FORMS;
                        let (ra, rb) = (a.apply(form, &inp, &mut oa), b.apply(form, &inp, &mut ob));
                        if ra.is_err() || rb.is_err() {
                            violation!("apply_err", "op {}: apply failed", i);
                        }
                        if injected && (oa != ob || (a.seekable() && a.pos(2) != b.pos(2))) {
                            violation!("state_damaged", "op {}: after a rejected apply_keystream_b2b the instance no longer behaves like a twin that never saw it", i);
                        }
                    }
                    "bad_apply" => {
                        let (n, m) = (op.n as usize, op.m as usize);
                        if n > 1 << 14 || m > 1 << 14 {
                            invalid!("len");
                        }
                        let inp = op_input(scn, i, n);
                        let snap = scn.dirt(i, m);
                        let mut out = snap.clone();
                        let before = if a.seekable() { Some(a.pos(2)) } else { None };
                        let r = a.apply_b2b_raw(&inp, &mut out);
                        ctx.nontrivial = true;
                        ctx.sig.u((n != m) as u64);
                        if n != m {
                            injected = true;
                            ctx.fault("apply_keystream_b2b_unequal_lengths");
                            ctx.probe("stream_b2b_unequal");
                            if r.is_ok() {
                                violation!("accepted", "op {}: {} apply_keystream_b2b accepted a {}-byte input with a {}-byte output", i, scn.mode, n, m);
                            }
                            if out != snap {
                                violation!("buffer_modified", "op {}: rejected apply_keystream_b2b modified the output buffer at byte {}", i, first_diff(&out, &snap));
                            }
                            let after = if a.seekable() { Some(a.pos(2)) } else { None };
                            if before != after {
                                violation!("position_moved", "op {}: rejected apply_keystream_b2b moved the position {:?} -> {:?}", i, before, after);
                            }
                        } else {
                            if r.is_err() {
                                violation!("valid_rejected", "op {}: apply_keystream_b2b rejected equal lengths", i);
                            }
                            let mut ob = scn.dirt(i, m);
                            let _ = b.apply_b2b_raw(&inp, &mut ob);
                        }
                    }
                    _ => invalid!("op"),
                }
            }
            Verdict::Ok
        }
        6 => {
            let group = scn.num("group");
            let ctor = (2 + scn.num("ctor") % 2) as u8;
            let (kl, il) = (scn.num("klen") as usize, scn.num("ivlen") as usize);
            if kl > 1024 || il > 2048 {
                invalid!("len");
            }
            let key = scn.bytes(3, kl);
            let iv = scn.bytes(11, il);
            let right_k = scn.cipher.key_len();
            let right_iv = iv_len(&scn.mode, bs);
            // ctor 3 (inner_iv_slice_init) takes an already keyed cipher: only the IV is a slice
            let key_matters = ctor == 2;
            let ecb = scn.mode.starts_with("ecb");
            // ECB-CS types have no IV: only the key slice can be wrong (KeyInit::new_from_slice)
            let should_ok = (!key_matters || kl == right_k) && (ecb || il == right_iv);
            if ecb && ctor == 3 {
                invalid!("ECB-CS types have no slice constructor besides new_from_slice");
            }
            ctx.sig.u((group as u64) << 16 | (ctor as u64) << 12 | ((kl == right_k) as u64) << 4 | (il == right_iv) as u64);
            // the cipher handed to ctor 3 is always correctly keyed
            let good_key = scn.key.clone();
            let k_used: &[u8] = if key_matters { &key } else { &good_key };
            let r: Result<(), MkErr> = match group {
                0 => make_block(&scn.mode, bs, scn.cipher, k_used, &iv, 0, ctor).map(|_| ()),
                1 => make_stream(&scn.mode, bs, scn.cipher, k_used, &iv, 0, ctor).map(|_| ()),
                2 => make_buf(&scn.mode, bs, scn.cipher, k_used, &iv, 0, ctor, None).map(|_| ()),
                _ => {
                    let msg = scn.bytes(0, bs);
                    let mut out = vec![0u8; bs];
                    cts_run(&scn.mode, bs, scn.cipher, k_used, &iv, 0, ctor, false, 0, &msg, &mut out).map(|_| ())
                }
            };
            ctx.nontrivial = true;
            match r {
                Err(MkErr::Unsupported) => invalid!("unsupported"),
                Ok(()) if !should_ok => violation!("accepted", "{}: constructor {} accepted a {}-byte key / {}-byte IV (right: {} / {})", scn.mode, if ctor == 2 { "new_from_slice(s)" } else { "inner_iv_slice_init" }, kl, il, right_k, right_iv),
                Err(MkErr::Rejected) if should_ok => violation!("valid_rejected", "{}: constructor {} rejected a {}-byte key / {}-byte IV", scn.mode, ctor, kl, il),
                Ok(()) => {}
                Err(MkErr::Rejected) => {
                    ctx.fault("wrong_key_or_iv_slice_length");
                    ctx.probe_if(key_matters && kl != right_k, "ctor_bad_key");
                    ctx.probe_if(il != right_iv && !ecb, "ctor_bad_iv");
                    ctx.probe_if(scn.mode.starts_with("ige") && il == bs, "ctor_ige_one_block_iv");
                }
            }
            Verdict::Ok
        }
        _ => {
            // no-panic sweep: the executor itself runs under catch_unwind
            let fam = scn.num("fam") as u8;
            if fam > 3 || !fam_modes(fam).contains(&scn.mode.as_str()) {
                invalid!("mode");
            }
            let mut inst = match Inst::make(fam, &scn.mode, bs, scn.cipher, &scn.key, &scn.iv, 0, 0) {
                Ok(i) => i,
                Err(MkErr::Unsupported) => invalid!("unsupported"),
                Err(_) => violation!("construct", "rejected"),
            };
            ctx.sig.u(fam as u64);
            ctx.probe_if(bs == 255, "sweep_bs255");
            ctx.probe_if(bs == 1, "sweep_bs1");
            ctx.nontrivial = scn.ops.len() >= 2;
            let lim = super::c04::flavor_of(&scn.mode).map(super::c04::limit_blocks).unwrap_or(u128::MAX);
            for (i, op) in scn.ops.iter().enumerate() {
                ctx.sig.s(&op.k);
                match op.k.as_str() {
                    "data" => {
                        let n = op.n as usize * inst.unit();
                        if n > 1 << 14 {
                            invalid!("len");
                        }
                        ctx.sig.u((op.via as u64) << 8 | op.n.min(40));
                        let inp = op_input(scn, i, n);
                        // near the end of a keystream the checked API may refuse; that is an Err, not a panic
                        let form_panics = matches!(&inst, Inst::S(_)) && crate::sobj::apply_form_panics(op.via % crate::sobj::N_APPLY_FORMS);
                        let mut o2 = op.clone();
                        if form_panics {
                            o2.via = 0; // the panicking conveniences are only used where try_ succeeds
                        }
                        let _ = inst.step(&o2, &inp, scn.dirt(i, n));
                    }
                    "seek" => {
                        if op.p / bs as u128 >= lim {
                            // at or past the end of the keystream: allowed as the closing operation
                            // only (Ok or Err, but no panic); the state afterwards is never used
                            if i + 1 != scn.ops.len() {
                                invalid!("beyond keystream");
                            }
                            ctx.probe("sweep_seek_at_end");
                        }
                        ctx.probe_if(op.p > u32::MAX as u128, "sweep_seek_far");
                        if let Err(e) = inst.step(op, &[], Vec::new()) {
                            if e == "op does not apply" {
                                invalid!("{}", e);
                            }
                        }
                    }
                    "setpos" => {
                        if op.p >= lim {
                            invalid!("beyond keystream");
                        }
                        ctx.probe_if(op.p > u32::MAX as u128, "sweep_seek_far");
                        if let Err(e) = inst.step(op, &[], Vec::new()) {
                            if e == "op does not apply" {
                                invalid!("{}", e);
                            }
                        }
                    }
                    "restart" => {
                        if let Some(e) = inst.export() {
                            // byte-stream aliases export their core state at block boundaries only
                            let at_boundary = match &inst {
                                Inst::S(s) => !s.seekable() || s.pos(2).map(|p| p % bs as u128 == 0).unwrap_or(false),
                                _ => true,
                            };
                            if at_boundary {
                                ctx.probe("sweep_restart");
                                drop(inst);
                                inst = match Inst::import(fam, &scn.mode, bs, scn.cipher, &scn.key, &e, 0) {
                                    Ok(i) => i,
                                    Err(_) => violation!("import", "op {}: valid exported state rejected", i),
                                };
                            }
                        }
                    }
                    "clone" => {
                        if let Some(c) = inst.dup() {
                            inst = c;
                        }
                    }
                    "padded" => {
                        let b = match inst {
                            Inst::B(b) => b,
                            _ => invalid!("padded on a non block mode"),
                        };
                        let n = op.n as usize;
                        if n > 1 << 14 {
                            invalid!("len");
                        }
                        let g = b.bs();
                        ctx.probe("sweep_padded");
                        ctx.sig.u((op.via as u64 % 3) << 8 | (op.ty as u64 % 5) << 4 | (n % g != 0) as u64);
                        let inp = op_input(scn, i, n);
                        let mut out = scn.dirt(i, n + g + 1);
                        let _ = b.finish(op.via % 3, op.ty % 5, &inp, &mut out);
                        return Verdict::Ok;
                    }
                    _ => invalid!("op"),
                }
            }
            Verdict::Ok
        }
    }
}
