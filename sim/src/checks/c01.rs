//! C01 - decryption inverts encryption for every mode, cipher, key, IV and message.
//!
//! Two parties over a fault-free simulated channel.  Party A (tag 0, width policy pol[0])
//! encrypts with its own schedule, the ciphertext crosses the channel, party B (tag 1, pol[1])
//! decrypts with an independently drawn schedule.  Oracle: B's plaintext equals the message and
//! every unpadded operation returned as many bytes as it was given.  No reference model.
//!   kind 0 block modes (cbc pcbc ige cfb cfb8 ofb): nums.blocks whole blocks through pieces
//!          blocks(n, via, p)@who, then nums.fin: 0 nothing, 1 padded one-shot over the last
//!          nums.rest blocks + nums.tail bytes (nums.pad: pkcs7 | iso7816 | nopad(tail=0)),
//!          2 async one-shot (cfb, cfb8); fin(via=kind)@who selects the call form per party
//!   kind 1 byte streams (6 CTR, ofb, belt): apply(n, via=form)@who pieces (cyclic), optional
//!          common start offset; or the stream core block-wise on B's side (nums.bcore)
//!   kind 2 buffered CFB: bytes(n)@who pieces
//!   kind 3 cts: cts(via=form)@who, message nums.len >= one block

use super::common::*;
use crate::engine::{CheckDef, Ctx, Verdict};
use crate::factory::{CTS_MODES, MkErr, STREAM_MODES, cts_run, make_block, make_buf, make_core, make_stream};
use crate::obj::N_VIA;
use crate::prng::Rng;
use crate::scn::{Op, Scn};
use crate::sobj::{N_APPLY_FORMS, N_CTS_FORMS, N_KS_VIA};
use crate::{invalid, violation};

pub fn def() -> CheckDef {
    CheckDef {
        id: "C01",
        level: "exploration",
        runs_quick: 600_000,
        runs_thorough: 20_000_000,
        rule: "two simulated parties with independently drawn call schedules and backend-width policies, connected by a fault-free channel: encrypt on A through every public way of driving the mode (single/multi-block forms, driver scripts, padded one-shots with Pkcs7/Iso7816/NoPadding in place, b2b and _vec, AsyncStreamCipher one-shots, byte-stream wrappers and cores with arbitrary chunking, buffered CFB, cts one-shots), decrypt on B. distinct = distinct (mode, block size, cipher, both policies, both schedules' form/size sequences, closing operation); non-trivial = message of >= 1 byte",
        required_probes: &["async_partial_tail", "different_widths", "padded_bs255", "zero_length_message", "padded_vec", "cts", "stream_core_side", "buffered", "start_by_consuming", "decryptor_restarted"],
        r#gen,
        exec,
        components: "real code: all nine crates and cipher's front ends on both parties; stub: block cipher in most runs, real AES-128/Magma/Kuznyechik/BelT in the rest; channel: harness byte buffer, fault-free in this check; no reference model",
        assumptions: &["toy permutation is a bijection (self-tested)", "only reversible paddings (Pkcs7, Iso7816) and NoPadding on whole blocks are round-tripped: ambiguous paddings do not round-trip by design of the padding", "sampling, not proof"],
        nondet_is_violation: false,
    }
}

const PAIRS: [&str; 6] = ["cbc", "pcbc", "ige", "cfb", "cfb8", "ofb"];

fn r#gen(rng: &mut Rng, thorough: bool) -> Scn {
    let kind = match rng.below(10) {
        0..=4 => 0,
        5 | 6 => 1,
        7 => 2,
        _ => 3,
    };
    let pool = 64 + rng.usize(500);
    let maxp = if thorough { 6 } else { 4 };
    let mut s;
    match kind {
        0 => {
            let base = *rng.pick(&PAIRS);
            s = base_scn(rng, "C01", &format!("{}.enc", base), true, 2, pool);
            let bs = s.bs as u64;
            let g = if base == "cfb8" { 1 } else { bs };
            let maxb = if base == "cfb8" { 48 } else if bs == 255 { 10 } else { 26 };
            let nb = if rng.chance(1, 12) { 0 } else { rng.nblocks(maxb, s.pol[0].max_width() as u64) };
            s.set_num("blocks", nb as u128);
            let fin = match rng.below(4) {
                0 | 1 => 0,
                2 => 1,
                _ => if base == "cfb" || base == "cfb8" { 2 } else { 1 },
            };
            s.set_num("fin", fin);
            if fin == 1 {
                let pad = rng.below(3);
                s.set_num("pad", pad as u128);
                s.set_num("rest", if rng.chance(1, 6) { 9 + rng.below(56) } else { rng.below(4) } as u128);
                s.set_num("tail", if pad == 2 { 0 } else { rng.below(g) } as u128);
            } else if fin == 2 {
                s.set_num("rest", if rng.chance(1, 6) { 9 + rng.below(56) } else { rng.below(4) } as u128);
                s.set_num("tail", rng.below(bs) as u128);
            }
            for who in 0..2u8 {
                for _ in 0..1 + rng.usize(maxp) {
                    s.ops.push(Op::new("blocks").who(who).n(rng.nblocks(12, s.pol[who as usize].max_width() as u64)).via(rng.below(N_VIA as u64) as u8).p(rng.next() as u128));
                }
                s.ops.push(Op::new("fin").who(who).via(rng.below(3) as u8));
            }
        }
        1 => {
            let mode = *rng.pick(&STREAM_MODES);
            s = base_scn(rng, "C01", mode, false, 2, pool);
            if let Some(fl) = super::c04::flavor_of(mode) {
                s.iv = super::c04::gen_ctr_iv(rng, fl, s.bs);
            }
            let bs = s.bs as u64;
            s.set_num("len", if rng.chance(1, 12) { 0 } else { rng.nbytes(12 * bs, bs) } as u128);
            if mode != "ofb" && rng.chance(1, 3) {
                s.set_num("start", rng.below(4 * bs) as u128);
            }
            s.set_num("bcore", rng.chance(1, 4) as u128);
            s.set_num("bconsume", rng.chance(1, 2) as u128);
            s.set_num("brestart", rng.chance(1, 3) as u128);
            for who in 0..2u8 {
                for _ in 0..1 + rng.usize(maxp) {
                    s.ops.push(Op::new("apply").who(who).n(rng.nbytes(4 * bs, bs)).via(rng.below(N_APPLY_FORMS.max(N_KS_VIA) as u64) as u8).p(rng.next() as u128));
                }
            }
        }
        2 => {
            s = base_scn(rng, "C01", "cfb.bufenc", false, 2, pool);
            let bs = s.bs as u64;
            s.set_num("len", if rng.chance(1, 12) { 0 } else { rng.nbytes(12 * bs, bs) } as u128);
            for who in 0..2u8 {
                for _ in 0..1 + rng.usize(maxp) {
                    s.ops.push(Op::new("bytes").who(who).n(rng.nbytes(4 * bs, bs)));
                }
            }
        }
        _ => {
            let mode = *rng.pick(&CTS_MODES);
            s = base_scn(rng, "C01", mode, true, 2, pool);
            let bs = s.bs as u64;
            s.set_num("len", (bs + rng.nbytes(if bs == 255 { 8 * bs } else { 24 * bs }, bs)) as u128);
            for who in 0..2u8 {
                s.ops.push(Op::new("cts").who(who).via(rng.below(N_CTS_FORMS as u64) as u8));
            }
        }
    }
    s.set_num("kind", kind as u128);
    s
}

fn exec(scn: &Scn, ctx: &mut Ctx) -> Verdict {
    env_setup(scn, false);
    sig_base(ctx, scn);
    let kind = scn.num("kind");
    ctx.sig.u(kind as u64);
    let bs = scn.bs;
    ctx.probe_if(scn.pol.len() > 1 && scn.pol[0] != scn.pol[1], "different_widths");
    match kind {
        0 => {
            let base = scn.mode.trim_end_matches(".enc").to_string();
            if !PAIRS.contains(&base.as_str()) {
                invalid!("mode");
            }
            let dmode = format!("{}.dec", base);
            let mut a = match make_block(&scn.mode, bs, scn.cipher, &scn.key, &scn.iv, 0, 0) {
                Ok(o) => o,
                Err(MkErr::Unsupported) => invalid!("unsupported"),
                Err(_) => violation!("construct", "rejected"),
            };
            let mut b = match make_block(&dmode, bs, scn.cipher, &scn.key, &scn.iv, 1, 0) {
                Ok(o) => o,
                Err(MkErr::Unsupported) => invalid!("unsupported"),
                Err(_) => violation!("construct", "rejected"),
            };
            let g = a.bs();
            let nb = scn.num("blocks") as usize;
            let fin = scn.num("fin");
            let rest = scn.num("rest") as usize;
            let tail = scn.num("tail") as usize;
            let pad = (scn.num("pad") % 3) as u8;
            if nb > 4096 || rest > 64 || tail >= bs.max(2) * 2 {
                invalid!("sizes");
            }
            let fin_len = if fin == 0 { 0 } else { rest * g + tail };
            if fin == 1 && pad == 2 && tail % g != 0 {
                invalid!("NoPadding needs whole blocks");
            }
            if fin == 2 && !a.has_async() {
                invalid!("no async");
            }
            let msg = scn.bytes(0, nb * g + fin_len);
            let fk = |who: u8| scn.ops.iter().find(|o| o.k == "fin" && o.who == who).map(|o| o.via % 3).unwrap_or(0);
            ctx.sig.u((fin as u64) << 20 | (pad as u64) << 16 | (fk(0) as u64) << 8 | fk(1) as u64);
            // --- party A
            let mut ct = drive_pieces(a.as_mut(), &msg[..nb * g], &scn.ops, 0, scn, ctx);
            if ct.len() != nb * g {
                violation!("length", "encrypting {} blocks produced {} bytes", nb, ct.len());
            }
            if fin == 1 {
                let cap = fin_len + g + 3;
                let mut out = scn.dirt(9, cap);
                let kinda = fk(0);
                ctx.probe_if(kinda == 2, "padded_vec");
                ctx.probe_if(bs == 255, "padded_bs255");
                let r = a.finish(kinda, pad, &msg[nb * g..], &mut out);
                let want = if pad == 2 { fin_len } else { (fin_len / g + 1) * g };
                match r {
                    Ok(l) if l == want => ct.extend_from_slice(&out[..l]),
                    other => violation!("length", "padded encryption ({}, form {}) of {} bytes with block size {} returned {:?}, expected {} bytes", crate::obj::PADS[pad as usize], kinda, fin_len, g, other, want),
                }
            } else if fin == 2 {
                let mut out = scn.dirt(9, fin_len);
                let kinda = 3 + fk(0);
                ctx.probe_if(fin_len % bs != 0, "async_partial_tail");
                match a.finish(kinda, 0, &msg[nb * g..], &mut out) {
                    Ok(l) if l == fin_len => ct.extend_from_slice(&out),
                    other => violation!("length", "async encryption of {} bytes returned {:?}", fin_len, other),
                }
            }
            ctx.fp.bytes(&ct);
            // --- channel (fault-free) --- party B
            let mut pt = drive_pieces(b.as_mut(), &ct[..nb * g], &scn.ops, 1, scn, ctx);
            if fin == 1 {
                let n = ct.len() - nb * g;
                let mut out = scn.dirt(11, n);
                let kindb = fk(1);
                match b.finish(kindb, pad, &ct[nb * g..], &mut out) {
                    Ok(l) => pt.extend_from_slice(&out[..l]),
                    Err(()) => violation!("unpad", "padded decryption ({}, form {}) of an honest {}-byte ciphertext failed", crate::obj::PADS[pad as usize], kindb, n),
                }
            } else if fin == 2 {
                let mut out = scn.dirt(11, fin_len);
                match b.finish(3 + fk(1), 0, &ct[nb * g..], &mut out) {
                    Ok(l) if l == fin_len => pt.extend_from_slice(&out),
                    other => violation!("length", "async decryption of {} bytes returned {:?}", fin_len, other),
                }
            }
            ctx.nontrivial = !msg.is_empty();
            ctx.probe_if(msg.is_empty(), "zero_length_message");
            if pt != msg {
                let d = first_diff(&pt, &msg);
                violation!("roundtrip", "{}: decrypt(encrypt(m)) != m for a {}-byte message (first difference at byte {}, got {} bytes back); closing op {} padding {}", base, msg.len(), d, pt.len(), fin, crate::obj::PADS[pad as usize]);
            }
            Verdict::Ok
        }
        1 => {
            if !STREAM_MODES.contains(&scn.mode.as_str()) {
                invalid!("mode");
            }
            let len = scn.num("len") as usize;
            let start = scn.num("start");
            if len > 1 << 16 || start > 1 << 20 {
                invalid!("sizes");
            }
            let msg = scn.bytes(0, len);
            let mut a = match make_stream(&scn.mode, bs, scn.cipher, &scn.key, &scn.iv, 0, 0) {
                Ok(o) => o,
                Err(MkErr::Unsupported) => invalid!("unsupported"),
                Err(_) => violation!("construct", "rejected"),
            };
            let bcore = scn.num("bcore") == 1 && len % bs == 0 && start % bs as u128 == 0;
            if start != 0 && (!a.seekable() || a.seek(1, start).is_err()) {
                invalid!("start");
            }
            ctx.sig.u((start as u64 % bs as u64) << 8 | bcore as u64);
            let pieces = |who: u8| -> Vec<&Op> { scn.ops.iter().filter(|o| o.k == "apply" && o.who == who).collect() };
            // party A: wrapper, chunked
            let mut ct = Vec::with_capacity(len);
            let pa = pieces(0);
            let mut i = 0;
            while ct.len() < len || (i < pa.len()) {
                let (n, form) = if pa.is_empty() { (len, 0) } else { (pa[i % pa.len()].n as usize, pa[i % pa.len()].via % N_APPLY_FORMS) };
                let n = if i >= 4 * pa.len().max(1) { len - ct.len() } else { n.min(len - ct.len()) };
                i += 1;
                ctx.sig.u((form as u64) << 16 | n.min(1000) as u64);
                let mut out = scn.dirt(ct.len(), n);
                if a.apply(form, &msg[ct.len()..ct.len() + n], &mut out).is_err() {
                    violation!("apply_err", "apply({}) failed on the encrypting side", n);
                }
                ct.extend(out);
                if ct.len() >= len && i >= pa.len() {
                    break;
                }
            }
            if ct.len() != len {
                violation!("length", "{} bytes in, {} bytes out", len, ct.len());
            }
            ctx.fp.bytes(&ct);
            // party B
            let mut pt = Vec::with_capacity(len);
            let pb = pieces(1);
            if bcore {
                ctx.probe("stream_core_side");
                let mut c = match make_core(&scn.mode, bs, scn.cipher, &scn.key, &scn.iv, 1, 0) {
                    Ok(o) => o,
                    Err(_) => invalid!("core"),
                };
                if start != 0 && c.set_pos(start / bs as u128) != Some(true) {
                    invalid!("core start");
                }
                let mut i = 0;
                while pt.len() < len {
                    let (nbk, via, seed) = if pb.is_empty() { (len / bs, 4, 0) } else { (pb[i % pb.len()].n as usize / bs + 1, pb[i % pb.len()].via % N_KS_VIA, pb[i % pb.len()].p as u64) };
                    i += 1;
                    let n = (nbk * bs).min(len - pt.len());
                    let mut out = scn.dirt(pt.len(), n);
                    c.ks(via, seed, &ct[pt.len()..pt.len() + n], &mut out);
                    pt.extend(out);
                }
            } else {
                let mut b = match make_stream(&scn.mode, bs, scn.cipher, &scn.key, &scn.iv, 1, 0) {
                    Ok(o) => o,
                    Err(_) => invalid!("stream"),
                };
                if start != 0 && scn.num("bconsume") == 1 && start <= 1 << 16 {
                    // another route to the same offset: generate and discard the keystream before it
                    let z = vec![0u8; start as usize];
                    let mut o = vec![0u8; start as usize];
                    if b.apply(0, &z, &mut o).is_err() {
                        violation!("apply_err", "consuming {} bytes failed on the decrypting side", start);
                    }
                    ctx.probe("start_by_consuming");
                } else if start != 0 && b.seek(2, start).is_err() {
                    violation!("seek_err", "seek({}) failed on the decrypting side", start);
                }
                let mut i = 0;
                while pt.len() < len || i < pb.len() {
                    let (n, form) = if pb.is_empty() { (len, 0) } else { (pb[i % pb.len()].n as usize, pb[i % pb.len()].via % N_APPLY_FORMS) };
                    let n = if i >= 4 * pb.len().max(1) { len - pt.len() } else { n.min(len - pt.len()) };
                    i += 1;
                    ctx.sig.u(1 << 40 | (form as u64) << 16 | n.min(1000) as u64);
                    if scn.num("brestart") == 1 && i == 2 && (start as usize + pt.len()) % bs == 0 {
                        // crash/restart of the decrypting party at a block boundary
                        if let Some(st) = b.core_export() {
                            if let Ok(nb2) = make_stream(&scn.mode, bs, scn.cipher, &scn.key, &st, 1, 0) {
                                b = nb2;
                                ctx.probe("decryptor_restarted");
                            }
                        }
                    }
                    let mut out = scn.dirt(pt.len() + 1, n);
                    if b.apply(form, &ct[pt.len()..pt.len() + n], &mut out).is_err() {
                        violation!("apply_err", "apply({}) failed on the decrypting side", n);
                    }
                    pt.extend(out);
                    if pt.len() >= len && i >= pb.len() {
                        break;
                    }
                }
            }
            ctx.nontrivial = len > 0;
            ctx.probe_if(len == 0, "zero_length_message");
            if pt != msg {
                let d = first_diff(&pt, &msg);
                violation!("roundtrip", "{}: applying the keystream on both sides does not restore a {}-byte message (first difference at byte {})", scn.mode, len, d);
            }
            Verdict::Ok
        }
        2 => {
            let len = scn.num("len") as usize;
            if len > 1 << 16 {
                invalid!("sizes");
            }
            let msg = scn.bytes(0, len);
            let mut a = match make_buf("cfb.bufenc", bs, scn.cipher, &scn.key, &scn.iv, 0, 0, None) {
                Ok(o) => o,
                Err(MkErr::Unsupported) => invalid!("unsupported"),
                Err(_) => violation!("construct", "rejected"),
            };
            let mut b = match make_buf("cfb.bufdec", bs, scn.cipher, &scn.key, &scn.iv, 1, 0, None) {
                Ok(o) => o,
                Err(_) => invalid!("unsupported"),
            };
            ctx.probe("buffered");
            let mut buf = msg.clone();
            for (who, obj) in [(0u8, &mut a), (1u8, &mut b)] {
                let ps: Vec<&Op> = scn.ops.iter().filter(|o| o.k == "bytes" && o.who == who).collect();
                let mut done = 0;
                let mut i = 0;
                while done < len || i < ps.len() {
                    let n = if ps.is_empty() { len } else { ps[i % ps.len()].n as usize };
                    let n = if i >= 4 * ps.len().max(1) { len - done } else { n.min(len - done) };
                    i += 1;
                    ctx.sig.u((who as u64) << 40 | n.min(2000) as u64);
                    obj.proc(&mut buf[done..done + n]);
                    done += n;
                    if done >= len && i >= ps.len() {
                        break;
                    }
                }
                if who == 0 {
                    ctx.fp.bytes(&buf);
                }
            }
            ctx.nontrivial = len > 0;
            ctx.probe_if(len == 0, "zero_length_message");
            if buf != msg {
                let d = first_diff(&buf, &msg);
                violation!("roundtrip", "buffered CFB: decrypt(encrypt(m)) != m for {} bytes (first difference at byte {})", len, d);
            }
            Verdict::Ok
        }
        _ => {
            if !CTS_MODES.contains(&scn.mode.as_str()) {
                invalid!("mode");
            }
            let len = scn.num("len") as usize;
            if len < bs || len > 1 << 16 {
                invalid!("length");
            }
            let msg = scn.bytes(0, len);
            let f = |who: u8| scn.ops.iter().find(|o| o.k == "cts" && o.who == who).map(|o| o.via % N_CTS_FORMS).unwrap_or(0);
            ctx.sig.u((f(0) as u64) << 28 | (f(1) as u64) << 24 | ((len % bs) as u64) << 4 | (len / bs).min(3) as u64);
            ctx.probe("cts");
            let mut ct = scn.dirt(0, len);
            match cts_run(&scn.mode, bs, scn.cipher, &scn.key, &scn.iv, 0, 0, false, f(0), &msg, &mut ct) {
                Err(MkErr::Unsupported) => invalid!("unsupported"),
                Ok(Ok(())) => {}
                other => violation!("result", "cts encrypt of {} bytes (>= one block) returned {:?}", len, other),
            }
            ctx.fp.bytes(&ct);
            let mut pt = scn.dirt(1, len);
            match cts_run(&scn.mode, bs, scn.cipher, &scn.key, &scn.iv, 1, 0, true, f(1), &ct, &mut pt) {
                Ok(Ok(())) => {}
                other => violation!("result", "cts decrypt of {} bytes returned {:?}", len, other),
            }
            ctx.nontrivial = true;
            if pt != msg {
                let d = first_diff(&pt, &msg);
                violation!("roundtrip", "{}: decrypt(encrypt(m)) != m for {} bytes (block size {}, first difference at byte {})", scn.mode, len, bs, d);
            }
            Verdict::Ok
        }
    }
}
