//! C09 - exported IV state resumes the stream and equals the public chaining value.
//!
//! The textbook "crash and restart with only durable state surviving".  For one sampled
//! (type, cipher, IV, message, schedule A, schedule B) the executor SWEEPS EVERY CUT POINT k
//! (block index; byte index for buffered CFB; block boundaries for the byte-stream aliases):
//!   run m[..k] on a fresh instance under schedule A (data ops @0) and width policy pol[0];
//!   export (iv_state / get_core().iv_state() / get_state); DROP the instance;
//!   build a fresh instance from a fresh cipher and the exported value only;
//!   run m[k..] under schedule B (data ops @1) and pol[1]   [nums.double: restart once more].
//! Oracles: (1) output equals the uninterrupted run; (2) the exported value equals the observable
//! public chaining value computed from the real input/output bytes (CTR: the next block handed to
//! the cipher after the restart equals the exported value; BelT: (1) and (3) only);
//! (3) the instance of the opposite direction fed with the corresponding data exports the same.
//! nums.only = k+1 restricts the sweep to one cut point (used when shrinking by hand).

use super::common::*;
use super::inst::*;
use crate::engine::{CheckDef, Ctx, Verdict};
use crate::factory::MkErr;
use crate::prng::Rng;
use crate::scn::Scn;
use crate::simcipher::{ENC, env_clear_trace, env_events, env_mark, env_trace};
use crate::{invalid, violation};

pub fn def() -> CheckDef {
    CheckDef {
        id: "C09",
        level: "fault_enumeration",
        runs_quick: 100_000,
        runs_thorough: 4_000_000,
        rule: "crash/restart injection: for every sampled (type, block size, cipher, IV, message <= 24 blocks (buffered CFB: <= 4 blocks of bytes), two schedules, two width policies) ALL cut points are enumerated; at each the instance exports its IV state and is dropped, a fresh instance is built from the exported value alone and continues under an independent schedule. evaluations = scenarios; crash points are counted in reach_probes.cut_points. distinct = distinct (type, block size, cipher, policies, schedules, message length); non-trivial = message of >= 2 units so that a cut separates data from data",
        required_probes: &["cut_points", "start_far", "buf_restart_mid_block", "restart_after_par_group", "ctr64", "ctr128le", "ofb_core_non_aes", "double_restart", "ctr_next_counter_block_seen", "partner_direction_compared"],
        r#gen,
        exec,
        components: "real code: every stateful public type of the nine crates with its IvState / get_state / from_state / InnerIvInit implementations; stub: block cipher in most runs, real ciphers in the rest; crash = drop of the instance (only the exported bytes survive); no reference model: the public chaining value is computed from the real input/output bytes of the uninterrupted twin",
        assumptions: &["export of the byte-stream aliases is taken at block boundaries only (the wrapper's buffer is not part of IvState)", "sampling of scenarios, enumeration of cut points within each", "toy permutation is a bijection"],
        nondet_is_violation: false,
    }
}

fn r#gen(rng: &mut Rng, thorough: bool) -> Scn {
    let fam = pick_fam(rng);
    let mode = *rng.pick(fam_modes(fam));
    let pool = 64 + rng.usize(600);
    let mut s = base_scn(rng, "C09", mode, true, 2, pool);
    if let Some(fl) = super::c04::flavor_of(mode) {
        s.iv = super::c04::gen_ctr_iv(rng, fl, s.bs);
    }
    s.set_num("fam", fam as u128);
    let bs = s.bs as u64;
    let len = match fam {
        FAM_BLOCK if mode.starts_with("cfb8") => 1 + rng.below(3 * bs.min(24) + 4),
        FAM_BLOCK | FAM_CORE => 1 + rng.below(if bs > 200 { 8 } else { 24 }),
        FAM_STREAM => (1 + rng.below(if bs > 200 { 6 } else { 16 })) * bs,
        _ => 1 + rng.below((4 * bs).min(400)),
    };
    s.set_num("len", len as u128);
    s.set_num("double", rng.chance(1, 4) as u128);
    if (fam == FAM_STREAM || fam == FAM_CORE) && mode != "ofb" && rng.chance(2, 5) {
        // start far into the keystream: carries of the counter arithmetic sit there
        let lim = super::c04::flavor_of(mode).map(super::c04::limit_blocks).unwrap_or(u128::MAX / 512);
        let p: u128 = match rng.below(5) {
            0 => (1u128 << 32) - 1 - rng.below(20) as u128,
            1 => (1u128 << 64) - 1 - rng.below(20) as u128,
            2 => (1u128 << 63) - rng.below(20) as u128,
            3 => rng.u128() >> rng.below(100),
            _ => rng.below(1 << 20) as u128,
        };
        s.set_num("startblk", p.min(lim.saturating_sub(1 << 12)));
    }
    for who in 0..2u8 {
        let w = s.pol[who as usize].max_width() as u64;
        for _ in 0..1 + rng.usize(if thorough { 5 } else { 4 }) {
            s.ops.push(gen_data_op(rng, fam, mode, s.bs, w).who(who));
        }
    }
    s
}

fn xor(a: &[u8], b: &[u8]) -> Vec<u8> {
    a.iter().zip(b).map(|(x, y)| x ^ y).collect()
}

/// the public chaining value after `k` units, from the real bytes of the uninterrupted run
fn observable(mode: &str, bs: usize, iv: &[u8], inp: &[u8], out: &[u8], k: usize) -> Option<Vec<u8>> {
    let last = |v: &[u8]| v[k * bs - bs..k * bs].to_vec();
    let base = mode.split('.').next().unwrap();
    let enc = mode.ends_with("enc");
    match base {
        "cbc" | "cfb" if !mode.contains("buf") => Some(if k == 0 { iv.to_vec() } else if enc { last(out) } else { last(inp) }),
        "cfb8" => {
            // k counts bytes here
            let c = if enc { &out[..k] } else { &inp[..k] };
            let mut s = iv.to_vec();
            s.extend_from_slice(c);
            Some(s[s.len() - bs..].to_vec())
        }
        "ofb" => Some(if k == 0 { iv.to_vec() } else { xor(&last(inp), &last(out)) }),
        "pcbc" => Some(if k == 0 { iv.to_vec() } else { xor(&last(inp), &last(out)) }),
        "ige" => Some(if k == 0 {
            iv.to_vec()
        } else {
            let (c, p) = if enc { (last(out), last(inp)) } else { (last(inp), last(out)) };
            [c, p].concat()
        }),
        _ => None,
    }
}

fn exec(scn: &Scn, ctx: &mut Ctx) -> Verdict {
    env_setup(scn, false);
    sig_base(ctx, scn);
    let fam = scn.num("fam") as u8;
    if fam > 3 || !fam_modes(fam).contains(&scn.mode.as_str()) {
        invalid!("mode");
    }
    let bs = scn.bs;
    let len = scn.num("len") as usize;
    let double = scn.num("double") == 1;
    ctx.sig.u((fam as u64) << 32 | (double as u64) << 24 | len.min(5000) as u64);
    for o in &scn.ops {
        ctx.sig.u((o.who as u64) << 40 | (o.via as u64) << 32 | o.n.min(99));
    }
    let startblk = scn.num("startblk");
    if startblk != 0 && (scn.mode == "ofb" || !(fam == FAM_STREAM || fam == FAM_CORE) || startblk > u128::MAX / 1024) {
        invalid!("start position");
    }
    ctx.probe_if(startblk > u32::MAX as u128, "start_far");
    let mk = |tag: u8| -> Result<Inst, MkErr> {
        let mut i = Inst::make(fam, &scn.mode, bs, scn.cipher, &scn.key, &scn.iv, tag, 0)?;
        if startblk != 0 {
            let op = if fam == FAM_CORE { crate::scn::Op::new("setpos").p(startblk) } else { crate::scn::Op::new("seek").p(startblk * bs as u128).ty(1) };
            // positions beyond u64 need the u128 seek: Inst::step picks u64/usize, so go through the object
            let ok = match &mut i {
                Inst::S(s) => s.seek(2, startblk * bs as u128).is_ok(),
                _ => i.step(&op, &[], Vec::new()).is_ok(),
            };
            if !ok {
                return Err(MkErr::Unsupported);
            }
        }
        Ok(i)
    };
    let mut u = match mk(2) {
        Ok(i) => i,
        Err(MkErr::Unsupported) => invalid!("unsupported"),
        Err(_) => violation!("construct", "rejected"),
    };
    let unit = u.unit();
    // for the byte-stream aliases cuts are at block boundaries: len is in bytes, step bs
    let step = if fam == FAM_STREAM { bs } else { 1 };
    if len * unit > 1 << 15 || (fam == FAM_STREAM && len % bs != 0) {
        invalid!("len");
    }
    let msg = scn.bytes(0, len * unit);
    let out_u = match u.feed(&msg, &scn.ops, 0, scn, 0) {
        Ok(o) => o,
        Err(e) => violation!("apply_err", "uninterrupted run failed: {}", e),
    };
    let final_u = u.export();
    drop(u);
    ctx.fp.bytes(&out_u);
    ctx.nontrivial = len / step >= 2;
    ctx.probe_if(scn.mode.starts_with("ctr64"), "ctr64");
    ctx.probe_if(scn.mode == "ctr128le", "ctr128le");
    ctx.probe_if(scn.mode.starts_with("ofb") && (fam == FAM_CORE || fam == FAM_BLOCK) && scn.cipher.real_bs().is_none(), "ofb_core_non_aes");
    let is_ctr = scn.mode.starts_with("ctr");
    let only = scn.num("only") as usize;
    let base = scn.mode.split('.').next().unwrap_or("").to_string();
    let has_partner = fam == FAM_BLOCK || fam == FAM_BUF;
    let partner_mode = if scn.mode.ends_with("enc") { scn.mode.replace("enc", "dec") } else { scn.mode.replace("dec", "enc") };

    let mut k = 0usize;
    while k <= len {
        if only != 0 && only - 1 != k {
            k += step;
            continue;
        }
        ctx.probe("cut_points");
        ctx.fault("crash_restart_from_exported_state");
        // ---- before the crash
        let mut a = mk(0).unwrap();
        let st0 = crate::simcipher::env_stats();
        let out_a = match a.feed(&msg[..k * unit], &scn.ops, 0, scn, 0) {
            Ok(o) => o,
            Err(e) => violation!("apply_err", "prefix run failed: {}", e),
        };
        let st1 = crate::simcipher::env_stats();
        ctx.probe_if(st1.par_groups > st0.par_groups && st1.singles == st0.singles, "restart_after_par_group");
        let exp = match a.export() {
            Some(e) => e,
            None => invalid!("type cannot export with this cipher"),
        };
        if let Exp::Buf(_, p) = &exp {
            ctx.probe_if(*p != 0, "buf_restart_mid_block");
        }
        drop(a); // the crash: only `exp` survives
        // ---- oracle (2): observable public chaining value
        if let (Exp::Iv(v), Some(want)) = (&exp, if fam == FAM_BLOCK || scn.mode == "ofb" { observable(if scn.mode == "ofb" { "ofb.enc" } else { &scn.mode }, bs, &scn.iv, &msg, &out_u, if scn.mode == "ofb" && fam == FAM_STREAM { k / bs } else { k }) } else { None }) {
            if *v != want {
                violation!("public_value", "cut {}: exported IV state {} is not the public chaining value {} ({})", k, hexs(v), hexs(&want), base);
            }
        }
        // ---- oracle (3): the opposite direction exports the same
        if has_partner {
            if let Ok(mut p) = Inst::make(fam, &partner_mode, bs, scn.cipher, &scn.key, &scn.iv, 3, 0) {
                if p.feed(&out_u[..k * unit], &scn.ops, 1, scn, 7).is_ok() {
                    ctx.probe("partner_direction_compared");
                    if p.export().as_ref() != Some(&exp) {
                        violation!("partner_state", "cut {}: {} and {} that processed corresponding data export different states", k, scn.mode, partner_mode);
                    }
                }
            }
        }
        // ---- after the restart
        let mut r = match Inst::import(fam, &scn.mode, bs, scn.cipher, &scn.key, &exp, 1) {
            Ok(i) => i,
            Err(_) => violation!("import", "cut {}: exported state rejected on import", k),
        };
        env_trace(is_ctr);
        let mark = env_mark();
        let rest = &msg[k * unit..];
        let out_r = if double && rest.len() >= 2 * unit * step {
            // second crash in the middle of the remainder
            let mid = (rest.len() / unit / step / 2) * step * unit;
            let o1 = match r.feed(&rest[..mid], &scn.ops, 1, scn, 3) {
                Ok(o) => o,
                Err(e) => violation!("apply_err", "run after restart failed: {}", e),
            };
            let exp2 = r.export().unwrap();
            drop(r);
            ctx.probe("double_restart");
            let mut r2 = match Inst::import(fam, &scn.mode, bs, scn.cipher, &scn.key, &exp2, 1) {
                Ok(i) => i,
                Err(_) => violation!("import", "cut {}: second exported state rejected", k),
            };
            let o2 = match r2.feed(&rest[mid..], &scn.ops, 0, scn, 5) {
                Ok(o) => o,
                Err(e) => violation!("apply_err", "run after second restart failed: {}", e),
            };
            if k + mid / unit == len && r2.export() != final_u {
                violation!("final_state", "cut {}: state after the resumed run differs from the uninterrupted run's", k);
            }
            [o1, o2].concat()
        } else {
            let o = match r.feed(rest, &scn.ops, 1, scn, 3) {
                Ok(o) => o,
                Err(e) => violation!("apply_err", "run after restart failed: {}", e),
            };
            if r.export() != final_u {
                violation!("final_state", "cut {}: state after the resumed run differs from the uninterrupted run's", k);
            }
            o
        };
        if is_ctr {
            // CTR: "next counter block" - the first block handed to the cipher after the restart
            if let (Some((ev, bytes)), Exp::Iv(v)) = (env_events(mark).first(), &exp) {
                ctx.probe("ctr_next_counter_block_seen");
                if ev.dir != ENC || bytes != v {
                    violation!("public_value", "cut {}: exported IV state {} is not the next counter block {} handed to the cipher after the restart", k, hexs(v), hexs(bytes));
                }
            }
            env_trace(false);
            env_clear_trace();
        }
        // ---- oracle (1)
        if out_a[..] != out_u[..k * unit] {
            let d = first_diff(&out_a, &out_u[..k * unit]);
            violation!("prefix", "cut {}: output before the crash differs from the uninterrupted run at byte {}", k, d);
        }
        if out_r[..] != out_u[k * unit..] {
            let d = first_diff(&out_r, &out_u[k * unit..]);
            violation!("resume", "cut {} of {} ({}): output after restarting from the exported state differs from the uninterrupted run at byte {} after the cut (unit {})", k, len, scn.mode, d, d / unit);
        }
        k += step;
    }
    Verdict::Ok
}
