//! One live instance of any stateful public type, behind one interface, so that lifecycle checks
//! (clone C16, restart C09, drop C17, no-panic sweep C13) can be written once for all families.

use crate::factory::*;
use crate::obj::{BlockObj, N_VIA};
use crate::prng::Rng;
use crate::scn::{Op, Scn};
use crate::sobj::{BufObj, CoreObj, N_APPLY_FORMS, N_KS_VIA, SeekFail, StreamObj};

pub enum Inst {
    B(Box<dyn BlockObj>),
    S(Box<dyn StreamObj>),
    C(Box<dyn CoreObj>),
    F(Box<dyn BufObj>),
}

pub const FAM_BLOCK: u8 = 0;
pub const FAM_STREAM: u8 = 1;
pub const FAM_CORE: u8 = 2;
pub const FAM_BUF: u8 = 3;

pub fn fam_modes(fam: u8) -> &'static [&'static str] {
    match fam {
        FAM_BLOCK => &BLOCK_MODES,
        FAM_STREAM | FAM_CORE => &STREAM_MODES,
        _ => &BUF_MODES,
    }
}
pub fn pick_fam(rng: &mut Rng) -> u8 {
    match rng.below(10) {
        0..=3 => FAM_BLOCK,
        4..=6 => FAM_STREAM,
        7 | 8 => FAM_CORE,
        _ => FAM_BUF,
    }
}

impl Inst {
    pub fn make(fam: u8, mode: &str, bs: usize, ck: CK, key: &[u8], iv: &[u8], tag: u8, ctor: u8) -> Result<Inst, MkErr> {
        Ok(match fam {
            FAM_BLOCK => Inst::B(make_block(mode, bs, ck, key, iv, tag, ctor)?),
            FAM_STREAM => Inst::S(make_stream(mode, bs, ck, key, iv, tag, ctor)?),
            FAM_CORE => Inst::C(make_core(mode, bs, ck, key, iv, tag, ctor)?),
            _ => Inst::F(make_buf(mode, bs, ck, key, iv, tag, ctor, None)?),
        })
    }
    /// bytes per unit of a data op's `n`
    pub fn unit(&self) -> usize {
        match self {
            Inst::B(o) => o.bs(),
            Inst::C(o) => o.bs(),
            _ => 1,
        }
    }
    pub fn cipher_bs(&self) -> usize {
        match self {
            Inst::B(o) => o.bs(),
            Inst::S(o) => o.bs(),
            Inst::C(o) => o.bs(),
            Inst::F(o) => o.bs(),
        }
    }
    /// one operation: "data"(n units, via, p) | "seek"(p bytes, ty) on S | "setpos"(p blocks) on C.
    /// Err = the library returned an error (the caller decides what that means)
    pub fn step(&mut self, op: &Op, inp: &[u8], dirt: Vec<u8>) -> Result<Vec<u8>, String> {
        match (self, op.k.as_str()) {
            (Inst::B(o), "data") => {
                let mut out = dirt;
                o.proc(op.via % N_VIA, op.p as u64, inp, &mut out);
                Ok(out)
            }
            (Inst::S(o), "data") => {
                let mut out = dirt;
                o.apply(op.via % N_APPLY_FORMS, inp, &mut out).map_err(|_| "apply failed".to_string())?;
                Ok(out)
            }
            (Inst::S(o), "seek") => match o.seek(1 + op.ty % 2, op.p) {
                Ok(()) => Ok(Vec::new()),
                Err(SeekFail::Unrepresentable) => Err("unrepresentable".into()),
                Err(SeekFail::Err) => Err("seek failed".into()),
            },
            (Inst::C(o), "data") => {
                let mut out = dirt;
                o.ks(op.via % N_KS_VIA, op.p as u64, inp, &mut out);
                Ok(out)
            }
            (Inst::C(o), "setpos") => match o.set_pos(op.p) {
                Some(true) => Ok(Vec::new()),
                _ => Err("setpos not possible".into()),
            },
            (Inst::F(o), "data") => {
                let mut out = inp.to_vec();
                o.proc(&mut out);
                Ok(out)
            }
            _ => Err("op does not apply".into()),
        }
    }
    pub fn dup(&self) -> Option<Inst> {
        match self {
            Inst::B(o) => Some(Inst::B(o.dup())),
            Inst::S(o) => o.dup().map(Inst::S),
            Inst::C(o) => o.dup().map(Inst::C),
            Inst::F(o) => Some(Inst::F(o.dup())),
        }
    }
    /// everything observable about the state without consuming keystream: exported IV state,
    /// positions, remaining blocks
    pub fn snapshot(&self) -> Vec<u8> {
        let mut v = Vec::new();
        match self {
            Inst::B(o) => v.extend(o.export().unwrap_or_default()),
            Inst::S(o) => {
                v.extend(o.core_export().unwrap_or_default());
                v.extend(format!("|{:?}|{:?}|{:?}", o.block_pos(), if o.seekable() { Some(o.pos(2)) } else { None }, o.remaining_blocks()).into_bytes());
            }
            Inst::C(o) => {
                v.extend(o.export().unwrap_or_default());
                v.extend(format!("|{:?}|{:?}", o.get_pos(), o.remaining_blocks()).into_bytes());
            }
            Inst::F(o) => {
                let (b, p) = o.state();
                v.extend(b);
                v.extend(format!("|{}", p).into_bytes());
            }
        }
        v
    }
    /// `self.clone_from(src)`; false if the type is not Clone or the two are of different types
    pub fn assign_from(&mut self, src: &Inst) -> bool {
        match (self, src) {
            (Inst::B(a), Inst::B(b)) => a.assign_from(b.as_any()),
            (Inst::S(a), Inst::S(b)) => a.assign_from(b.as_any()),
            (Inst::C(a), Inst::C(b)) => a.assign_from(b.as_any()),
            (Inst::F(a), Inst::F(b)) => a.assign_from(b.as_any()),
            _ => false,
        }
    }
    pub fn block_pos(&self) -> Option<u128> {
        match self {
            Inst::S(o) => o.block_pos(),
            Inst::C(o) => o.get_pos(),
            _ => None,
        }
    }
    /// consuming AsyncStreamCipher one-shot (CFB, CFB-8 block objects); None if the type has none
    pub fn finish_async(self, kind: u8, inp: &[u8], out: &mut [u8]) -> Option<Result<usize, ()>> {
        match self {
            Inst::B(b) if b.has_async() => Some(b.finish(3 + kind % 3, 0, inp, out)),
            _ => None,
        }
    }
    pub fn snapshot_remaining(&self) -> Option<usize> {
        match self {
            Inst::S(o) => o.remaining_blocks(),
            Inst::C(o) => o.remaining_blocks(),
            _ => None,
        }
    }
    pub fn debug(&self) -> String {
        match self {
            Inst::B(o) => o.debug(),
            Inst::S(o) => o.debug(),
            Inst::C(o) => o.debug(),
            Inst::F(o) => o.debug(),
        }
    }
    pub fn alg(&self) -> String {
        match self {
            Inst::B(o) => o.alg(),
            Inst::S(o) => o.alg(),
            Inst::C(o) => o.alg(),
            Inst::F(o) => o.alg(),
        }
    }
    pub fn drop_scan(self) -> Vec<u8> {
        match self {
            Inst::B(o) => o.drop_scan(),
            Inst::S(o) => o.drop_scan(),
            Inst::C(o) => o.drop_scan(),
            Inst::F(o) => o.drop_scan(),
        }
    }
    pub fn peek(&self) -> Vec<u8> {
        match self {
            Inst::B(o) => o.peek(),
            Inst::S(o) => o.peek(),
            Inst::C(o) => o.peek(),
            Inst::F(o) => o.peek(),
        }
    }
}

/// a random data op sized for the family
pub fn gen_data_op(rng: &mut Rng, fam: u8, mode: &str, bs: usize, w: u64) -> Op {
    let n = match fam {
        FAM_BLOCK => {
            if mode.starts_with("cfb8") { rng.nbytes(3 * bs as u64 + 4, bs as u64) } else { rng.nblocks(if bs > 200 { 8 } else { 16 }, w) }
        }
        FAM_CORE => rng.nblocks(if bs > 200 { 8 } else { 16 }, w),
        _ => rng.nbytes(5 * bs as u64, bs as u64),
    };
    Op::new("data").n(n).via(rng.below(16) as u8).p(rng.next() as u128)
}

/// input bytes of operation number `i` (independent of which instance runs it)
pub fn op_input(scn: &Scn, i: usize, n: usize) -> Vec<u8> {
    scn.bytes(i * 97 + 13, n)
}

/// durable state: what survives a simulated crash
#[derive(Clone, Debug, PartialEq)]
pub enum Exp {
    Iv(Vec<u8>),
    Buf(Vec<u8>, usize),
}

impl Inst {
    pub fn export(&self) -> Option<Exp> {
        match self {
            Inst::B(o) => o.export().map(Exp::Iv),
            Inst::S(o) => o.core_export().map(Exp::Iv),
            Inst::C(o) => o.export().map(Exp::Iv),
            Inst::F(o) => {
                let (b, p) = o.state();
                Some(Exp::Buf(b, p))
            }
        }
    }
    /// restart: a fresh instance from a fresh cipher (same key) and the durable state only
    pub fn import(fam: u8, mode: &str, bs: usize, ck: CK, key: &[u8], exp: &Exp, tag: u8) -> Result<Inst, MkErr> {
        match (fam, exp) {
            (FAM_BUF, Exp::Buf(b, p)) => Ok(Inst::F(make_buf(mode, bs, ck, key, b, tag, 0, Some(*p))?)),
            (FAM_BUF, _) => Err(MkErr::Unsupported),
            (_, Exp::Iv(iv)) => Inst::make(fam, mode, bs, ck, key, iv, tag, 0),
            _ => Err(MkErr::Unsupported),
        }
    }
    /// feed `data` through the piece list (data ops of `who`, used cyclically)
    pub fn feed(&mut self, data: &[u8], ops: &[Op], who: u8, scn: &Scn, salt: usize) -> Result<Vec<u8>, String> {
        let u = self.unit();
        assert!(data.len() % u == 0, "harness: feed needs whole units");
        let ps: Vec<&Op> = ops.iter().filter(|o| (o.k == "data" || o.k == "clone") && o.who == who).collect();
        let mut out = Vec::with_capacity(data.len());
        let mut i = 0usize;
        while out.len() < data.len() {
            let mut op = if ps.is_empty() || i >= 4 * ps.len() + 4 { Op::new("data").n(((data.len() - out.len()) / u) as u64).via(3) } else { ps[i % ps.len()].clone() };
            i += 1;
            if op.k == "clone" {
                // continue on a clone of the instance (the original is dropped)
                if let Some(c) = self.dup() {
                    *self = c;
                }
                continue;
            }
            let n = (op.n as usize * u).min(data.len() - out.len());
            op.n = (n / u) as u64;
            let o = self.step(&op, &data[out.len()..out.len() + n], scn.dirt(salt + out.len(), n))?;
            out.extend(o);
        }
        Ok(out)
    }
}
