//! C15 - error propagation and data dependence match each mode's definition.
//!
//! Corruption faults on the simulated channel.  Party A produces an honest ciphertext c with the
//! real code; the channel injects a non-zero difference delta at position j; party B decrypts c
//! and c^delta@j as twin runs under the same schedule.  ALL positions j are enumerated for each
//! sampled message; delta is sampled (nums.dkind: single bit, one byte, several bytes of a block).
//! Only what is a theorem for every bijective cipher is demanded (dP = difference of plaintexts):
//!   CBC      dP_{j+1} = delta, dP_j != 0, all other blocks 0
//!   CFB      dP_j = delta, dP_{j+1} != 0 if block j+1 is a full block, all other blocks 0
//!   CFB-8    dp_j = delta, dp_k = 0 for k < j and k > j + bs   (bytes)
//!   CTR, OFB, BelT-CTR   dP = delta exactly
//!   PCBC, IGE  dP_k = 0 for k < j, dP_j != 0   ("every later block changes" is counted, not
//!            alarmed on: overwhelmingly likely for a fixed permutation, not certain)
//! plus: no output depends on later input (decrypting a prefix gives the prefix of the output),
//! and for CTR/OFB/BelT the sequence of cipher inputs does not depend on the data (seam trace).
//! The reference model is not consulted anywhere in this check.

use super::common::*;
use super::inst::*;
use crate::engine::{CheckDef, Ctx, Verdict};
use crate::factory::{MkErr, make_block};
use crate::prng::Rng;
use crate::scn::{Op, Scn};
use crate::simcipher::{env_clear_trace, env_events, env_trace};
use crate::{invalid, violation};

pub fn def() -> CheckDef {
    CheckDef {
        id: "C15",
        level: "fault_enumeration",
        runs_quick: 60_000,
        runs_thorough: 1_500_000,
        rule: "corruption faults on the channel between an encrypting and a decrypting party: for every sampled (mode, block size, cipher, IV, message <= 20 blocks, decrypting schedule, width policy, difference delta) ALL corruption positions j are enumerated; twin decryptions (clean vs corrupted) must differ in exactly the support the definition prescribes; prefix decryption for 'no dependence on later input'; identical cipher-input sequences for keystream modes. evaluations = scenarios; corruption positions are counted in reach_probes.corruptions. distinct = distinct (mode, block size, cipher, policy, schedule, delta kind, length); non-trivial = message of >= 2 blocks",
        required_probes: &["corruptions", "cbc", "cfb", "cfb8", "pcbc", "ige", "stream", "cfb_partial_tail", "cfb_buffered", "arbitrary_ciphertext", "later_blocks_changed", "prefix_checked", "keystream_independent_of_data"],
        r#gen,
        exec,
        components: "real code on both parties (cbc, pcbc, ige, cfb-mode, cfb8, ofb, ctr, belt-ctr and cipher's front ends); channel: harness byte buffer with injected bit/byte differences; stub: block cipher (a true bijection, self-tested) in most runs, real ciphers in the rest; no reference model",
        assumptions: &["'garbled' is checked as 'differs', which is a theorem for a bijective cipher; it is never demanded of partial blocks, of CFB-8's bs follow-up bytes or of PCBC/IGE's later blocks", "sampling of scenarios, enumeration of corruption positions within each"],
        nondet_is_violation: false,
    }
}

const BLOCKY: [&str; 6] = ["cbc", "cfb", "cfb8", "pcbc", "ige", "ofb"];

fn r#gen(rng: &mut Rng, _thorough: bool) -> Scn {
    let pool = 64 + rng.usize(500);
    let mut s;
    if rng.chance(3, 5) {
        let base = *rng.pick(&BLOCKY);
        s = base_scn(rng, "C15", &format!("{}.dec", base), true, 2, pool);
        let bs = s.bs as u64;
        s.set_num("fam", FAM_BLOCK as u128);
        let nb = if base == "cfb8" { 1 + rng.below(3 * bs.min(20) + 6) } else { 1 + rng.below(if bs > 200 { 6 } else { 20 }) };
        s.set_num("len", nb as u128);
        if base == "cfb" && rng.chance(1, 2) {
            s.set_num("tail", rng.below(bs) as u128);
        }
        let buf = base == "cfb" && rng.chance(2, 5);
        s.set_num("buf", buf as u128);
        s.set_num("raw", rng.chance(1, 3) as u128);
        for _ in 0..1 + rng.usize(4) {
            // the buffered decryptor is driven with byte-sized pieces, the block-level one with blocks
            let fam_ops = if buf { FAM_BUF } else { FAM_BLOCK };
            s.ops.push(gen_data_op(rng, fam_ops, &s.mode, s.bs, s.pol[1].max_width() as u64).who(1));
            if buf && rng.chance(1, 3) {
                // the decrypting party hands its state to a clone in mid-stream
                s.ops.push(Op::new("clone").who(1));
            }
        }
    } else {
        let mode = *rng.pick(&crate::factory::STREAM_MODES);
        s = base_scn(rng, "C15", mode, false, 2, pool);
        if let Some(fl) = super::c04::flavor_of(mode) {
            s.iv = super::c04::gen_ctr_iv(rng, fl, s.bs);
        }
        let fam = if rng.chance(1, 3) { FAM_CORE } else { FAM_STREAM };
        s.set_num("fam", fam as u128);
        let bs = s.bs as u64;
        s.set_num("len", if fam == FAM_CORE { 1 + rng.below(if bs > 200 { 6 } else { 16 }) } else { 1 + rng.below((10 * bs).min(600)) } as u128);
        for _ in 0..1 + rng.usize(4) {
            s.ops.push(gen_data_op(rng, fam, mode, s.bs, s.pol[1].max_width() as u64).who(1));
        }
    }
    s.set_num("dkind", rng.below(3) as u128);
    s.set_num("dseed", rng.next() as u128);
    s
}

/// difference pattern inside a unit of `g` bytes (never zero)
fn delta(scn: &Scn, g: usize, j: usize) -> Vec<u8> {
    let mut r = Rng::new(scn.num("dseed") as u64 ^ (j as u64).wrapping_mul(0x9e37));
    let mut d = vec![0u8; g];
    match scn.num("dkind") {
        0 => d[r.usize(g)] = 1 << r.below(8),
        1 => d[r.usize(g)] = 1 + r.below(255) as u8,
        _ => {
            for _ in 0..1 + r.usize(g.min(6)) {
                d[r.usize(g)] ^= 1 + r.below(255) as u8;
            }
            if d.iter().all(|b| *b == 0) {
                d[0] = 0x80;
            }
        }
    }
    d
}

fn exec(scn: &Scn, ctx: &mut Ctx) -> Verdict {
    env_setup(scn, false);
    sig_base(ctx, scn);
    let fam = scn.num("fam") as u8;
    let bs = scn.bs;
    let len = scn.num("len") as usize;
    ctx.sig.u((fam as u64) << 40 | (scn.num("dkind") as u64) << 32 | len.min(4000) as u64 | (scn.num("tail") as u64) << 16);
    for o in &scn.ops {
        ctx.sig.u((o.via as u64) << 32 | o.n.min(99));
    }
    if fam == FAM_BLOCK {
        let base = scn.mode.trim_end_matches(".dec").to_string();
        if !BLOCKY.contains(&base.as_str()) || !scn.mode.ends_with(".dec") {
            invalid!("mode");
        }
        let emode = format!("{}.enc", base);
        let mut enc = match make_block(&emode, bs, scn.cipher, &scn.key, &scn.iv, 0, 0) {
            Ok(o) => o,
            Err(MkErr::Unsupported) => invalid!("unsupported"),
            Err(_) => violation!("construct", "rejected"),
        };
        let g = enc.bs(); // unit: block, or byte for CFB-8
        let tail = if base == "cfb" { scn.num("tail") as usize % bs } else { 0 };
        if len == 0 || len * g > 1 << 14 {
            invalid!("len");
        }
        let msg = scn.bytes(0, len * g + tail);
        let buf = base == "cfb" && scn.num("buf") == 1;
        ctx.probe_if(buf, "cfb_buffered");
        // party A: honest ciphertext (real code)
        let mut c = vec![0u8; msg.len()];
        if buf {
            let mut e = match Inst::make(FAM_BUF, "cfb.bufenc", bs, scn.cipher, &scn.key, &scn.iv, 0, 0) {
                Ok(i) => i,
                Err(_) => invalid!("buffered"),
            };
            c = match e.feed(&msg, &[], 0, scn, 0) {
                Ok(o) => o,
                Err(e) => violation!("apply_err", "{}", e),
            };
        } else if tail > 0 {
            if enc.finish(3, 0, &msg, &mut c) != Ok(msg.len()) {
                violation!("length", "one-shot encryption failed");
            }
        } else {
            enc.proc(crate::obj::VIA_BLOCKS, 0, &msg, &mut c);
        }
        let dec = |data: &[u8], ctx: &mut Ctx| -> Result<Vec<u8>, Verdict> {
            if buf {
                let mut d = Inst::make(FAM_BUF, "cfb.bufdec", bs, scn.cipher, &scn.key, &scn.iv, 1, 0).map_err(|_| Verdict::Invalid("buffered".into()))?;
                return d.feed(data, &scn.ops, 1, scn, 1).map_err(|e| Verdict::Violation { clause: "apply_err".into(), detail: e });
            }
            let mut d = match make_block(&scn.mode, bs, scn.cipher, &scn.key, &scn.iv, 1, 0) {
                Ok(o) => o,
                Err(_) => return Err(Verdict::Invalid("dec".into())),
            };
            if data.len() % g != 0 || tail > 0 {
                let mut out = scn.dirt(1, data.len());
                match d.finish(3 + (scn.num("dseed") % 3) as u8, 0, data, &mut out) {
                    Ok(l) if l == data.len() => Ok(out),
                    other => Err(Verdict::Violation { clause: "length".into(), detail: format!("one-shot decryption of {} bytes returned {:?}", data.len(), other) }),
                }
            } else {
                Ok(drive_pieces(d.as_mut(), data, &to_blocks_ops(&scn.ops), 1, scn, ctx))
            }
        };
        let raw = scn.num("raw") == 1;
        if raw {
            // the statement is about *any* ciphertext: take the data pool itself (zero blocks,
            // repeated blocks, counting patterns) instead of an honest ciphertext
            c = msg.clone();
            ctx.probe("arbitrary_ciphertext");
        }
        let p0 = match dec(&c, ctx) {
            Ok(p) => p,
            Err(v) => return v,
        };
        if !raw && p0 != msg {
            violation!("roundtrip", "{}: honest ciphertext does not decrypt to the message", base);
        }
        ctx.probe(match base.as_str() {
            "cbc" => "cbc",
            "cfb" => "cfb",
            "cfb8" => "cfb8",
            "pcbc" => "pcbc",
            "ige" => "ige",
            _ => "stream",
        });
        ctx.probe_if(tail > 0, "cfb_partial_tail");
        ctx.nontrivial = len >= 2;
        ctx.fp.bytes(&c);
        let units = len; // full units; a partial tail is unit index `len`
        for j in 0..units {
            let dl = delta(scn, g, j);
            let mut c2 = c.clone();
            for (x, y) in c2[j * g..(j + 1) * g].iter_mut().zip(&dl) {
                *x ^= *y;
            }
            ctx.probe("corruptions");
            ctx.fault(if scn.num("dkind") == 0 { "channel_bit_flip" } else { "channel_byte_corruption" });
            let p1 = match dec(&c2, ctx) {
                Ok(p) => p,
                Err(v) => return v,
            };
            let dp: Vec<u8> = p0.iter().zip(p1.iter()).map(|(a, b)| a ^ b).collect();
            let unit = |k: usize| -> &[u8] { &dp[k * g..((k + 1) * g).min(dp.len())] };
            let zero = |s: &[u8]| s.iter().all(|b| *b == 0);
            let nunits = dp.len().div_ceil(g);
            let fail = |what: String| Verdict::Violation { clause: format!("propagation_{}", base), detail: format!("{} bs={} len={} units: corrupting unit {} with delta {}: {}", base, bs, nunits, j, hexs(&dl), what) };
            match base.as_str() {
                "cbc" => {
                    for k in 0..nunits {
                        if k == j {
                            if zero(unit(k)) {
                                return fail(format!("plaintext block {} did not change", k));
                            }
                        } else if k == j + 1 {
                            if unit(k) != &dl[..] {
                                return fail(format!("plaintext block {} changed by {} instead of exactly delta", k, hexs(unit(k))));
                            }
                        } else if !zero(unit(k)) {
                            return fail(format!("plaintext block {} changed (only blocks {} and {} may)", k, j, j + 1));
                        }
                    }
                }
                "cfb" => {
                    for k in 0..nunits {
                        if k == j {
                            if unit(k) != &dl[..] {
                                return fail(format!("plaintext block {} changed by {} instead of exactly delta", k, hexs(unit(k))));
                            }
                        } else if k == j + 1 {
                            if unit(k).len() == g && zero(unit(k)) {
                                return fail(format!("plaintext block {} did not change", k));
                            }
                        } else if !zero(unit(k)) {
                            return fail(format!("plaintext block {} changed (only blocks {} and {} may)", k, j, j + 1));
                        }
                    }
                }
                "cfb8" => {
                    for k in 0..nunits {
                        if k == j {
                            if dp[k] != dl[0] {
                                return fail(format!("plaintext byte {} changed by {:02x} instead of exactly delta", k, dp[k]));
                            }
                        } else if (k < j || k > j + bs) && dp[k] != 0 {
                            return fail(format!("plaintext byte {} changed (only bytes {}..={} may)", k, j, j + bs));
                        }
                    }
                }
                "ofb" => {
                    for k in 0..nunits {
                        if (k == j && unit(k) != &dl[..]) || (k != j && !zero(unit(k))) {
                            return fail(format!("plaintext block {} changed by {}: OFB must flip exactly the same bits", k, hexs(unit(k))));
                        }
                    }
                }
                _ => {
                    // pcbc, ige
                    for k in 0..j {
                        if !zero(unit(k)) {
                            return fail(format!("plaintext block {} before the corrupted one changed", k));
                        }
                    }
                    if zero(unit(j)) {
                        return fail(format!("plaintext block {} did not change", j));
                    }
                    for k in j + 1..nunits {
                        ctx.probe(if zero(unit(k)) { "later_block_unchanged" } else { "later_blocks_changed" });
                    }
                }
            }
        }
        // no output depends on later input: decrypting a prefix gives the prefix
        for k in [units / 2, units.saturating_sub(1)] {
            if k > 0 && k < units {
                let pk = match dec(&c[..k * g], ctx) {
                    Ok(p) => p,
                    Err(v) => return v,
                };
                ctx.probe("prefix_checked");
                if pk[..] != p0[..k * g] {
                    violation!("later_input", "{}: decrypting only the first {} units changes output unit {}", base, k, first_diff(&pk, &p0) / g);
                }
            }
        }
        Verdict::Ok
    } else {
        if (fam != FAM_STREAM && fam != FAM_CORE) || !crate::factory::STREAM_MODES.contains(&scn.mode.as_str()) {
            invalid!("mode");
        }
        let unit = if fam == FAM_CORE { bs } else { 1 };
        if len == 0 || len * unit > 1 << 14 {
            invalid!("len");
        }
        let msg = scn.bytes(0, len * unit);
        let run = |tag: u8, data: &[u8]| -> Result<(Vec<u8>, Vec<Vec<u8>>), Verdict> {
            let mut i = match Inst::make(fam, &scn.mode, bs, scn.cipher, &scn.key, &scn.iv, tag, 0) {
                Ok(i) => i,
                Err(MkErr::Unsupported) => return Err(Verdict::Invalid("unsupported".into())),
                Err(_) => return Err(Verdict::Violation { clause: "construct".into(), detail: "rejected".into() }),
            };
            env_clear_trace();
            env_trace(true);
            let out = i.feed(data, &scn.ops, 1, scn, 0).map_err(|e| Verdict::Violation { clause: "apply_err".into(), detail: e })?;
            let evs = env_events(0).into_iter().map(|e| e.1).collect();
            env_trace(false);
            env_clear_trace();
            Ok((out, evs))
        };
        let (c, ks_inputs) = match run(0, &msg) {
            Ok(x) => x,
            Err(v) => return v,
        };
        ctx.probe("stream");
        ctx.nontrivial = len * unit >= 2 * bs;
        ctx.fp.bytes(&c);
        let (p0, _) = match run(1, &c) {
            Ok(x) => x,
            Err(v) => return v,
        };
        if p0 != msg {
            violation!("roundtrip", "{}: honest ciphertext does not decrypt to the message", scn.mode);
        }
        let total = len * unit;
        // enumerate every corruption position (byte granular, at most ~600 positions)
        for j in 0..total {
            let dl = delta(scn, 1, j)[0];
            let mut c2 = c.clone();
            c2[j] ^= dl;
            // a few positions get a multi-byte difference
            let extra = if scn.num("dkind") == 2 && j + 3 < total { 3 } else { 0 };
            for e in 1..=extra {
                c2[j + e] ^= dl.rotate_left(e as u32) | 1;
            }
            ctx.probe("corruptions");
            ctx.fault(if scn.num("dkind") == 0 { "channel_bit_flip" } else { "channel_byte_corruption" });
            let (p1, ks2) = match run(1, &c2) {
                Ok(x) => x,
                Err(v) => return v,
            };
            for k in 0..total {
                if (p0[k] ^ p1[k]) != (c[k] ^ c2[k]) {
                    violation!("propagation_stream", "{}: corrupting ciphertext byte {} changed plaintext byte {} by {:02x} (ciphertext difference there: {:02x}); a keystream mode must flip exactly the same bits", scn.mode, j, k, p0[k] ^ p1[k], c[k] ^ c2[k]);
                }
            }
            if ks2 != ks_inputs {
                violation!("keystream_depends_on_data", "{}: the sequence of blocks handed to the cipher differs between two runs that differ only in the data processed (corrupted byte {})", scn.mode, j);
            }
            ctx.probe("keystream_independent_of_data");
        }
        Verdict::Ok
    }
}

/// drive_pieces understands "blocks" ops; this check stores its schedule as Inst "data" ops
fn to_blocks_ops(ops: &[crate::scn::Op]) -> Vec<crate::scn::Op> {
    ops.iter()
        .map(|o| {
            let mut b = o.clone();
            if b.k == "data" {
                b.k = "blocks".into();
            }
            b
        })
        .collect()
}
