//! C06 - BelT-CTR follows STB 34.101.31: s0 = LE(E(IV)), keystream block i = E(LE(s0 + i + 1)).
//! Driver and op alphabet: streamconf.rs.  Partial fit, as C04.  IVs are chosen as D(LE(2^128-k))
//! in a share of the runs so that s wraps through 2^128 within the run.  A closing "twice" op
//! checks that applying the keystream twice restores the data (encryption = decryption).

use super::common::*;
use super::streamconf::{Conf, stream_conformance};
use crate::engine::{CheckDef, Ctx, Verdict};
use crate::factory::prim_dec;
use crate::invalid;
use crate::model;
use crate::prng::Rng;
use crate::scn::{Op, Scn};
use crate::sobj::{N_APPLY_FORMS, N_KS_VIA};

pub fn def() -> CheckDef {
    CheckDef {
        id: "C06",
        level: "exploration",
        runs_quick: 800_000,
        runs_thorough: 25_000_000,
        rule: "seeded apply/seek histories on BeltCtr and ks/set_block_pos histories on BeltCtrCore over the 16-byte harness cipher (width per call from {1,2,3,5,8}, so the parallel keystream path runs) or BelT itself; IVs incl. D(LE(2^128-k)) so that s wraps; start positions small, near 2^32, near 2^64 and far; seam trace: first block E(IV), keystream block i has cipher input LE(s0+i+1); output = input XOR that. distinct = distinct (front end, cipher, policy, op/form/offset-class sequence); non-trivial = >= 1 keystream byte",
        required_probes: &["s_wraps_2_128", "par_keystream_block", "seek_inside_block", "real_belt", "block_index_ge_2_32", "restart_from_exported_state"],
        r#gen,
        exec,
        components: "real code: belt-ctr crate and cipher's StreamCipherCoreWrapper; stub: block cipher (SimCipher<16>/SimCipherEnc<16>) in most runs, real BeltBlock in the rest; oracle: belt_s0/belt_input in sim/src/model.rs applied to the recorded seam trace",
        assumptions: &["model and toy permutation are correct (self-tested)", "sampling, not proof"],
        nondet_is_violation: false,
    }
}

const LIMIT: u128 = u128::MAX; // 2^128 - 1 blocks

fn r#gen(rng: &mut Rng, thorough: bool) -> Scn {
    let pool = 64 + rng.usize(300);
    let mut s = base_scn(rng, "C06", "belt", false, 1, pool);
    if s.cipher.has_dec() && rng.chance(2, 5) {
        // E(IV) next to the wrap
        let target = u128::MAX - rng.below(24) as u128;
        let mut b = target.to_le_bytes().to_vec();
        prim_dec(s.cipher, &s.key, &mut b);
        s.iv = b;
    }
    let core = rng.chance(2, 5);
    s.set_num("front", core as u128);
    s.set_num("ctor", rng.below(4) as u128);
    let w = s.pol[0].max_width() as u64;
    let nops = 1 + rng.usize(if thorough { 10 } else { 7 });
    for _ in 0..nops {
        if core {
            match rng.below(10) {
                0 | 1 => s.ops.push(Op::new("setpos").p(far_block(rng))),
                3 => s.ops.push(Op::new("restart")),
                2 => {
                    s.ops.push(Op::new("wrap"));
                    s.ops.push(Op::new("apply").n(rng.nbytes(80, 16)).via(rng.below(N_APPLY_FORMS as u64) as u8));
                    break;
                }
                _ => s.ops.push(Op::new("ks").n(rng.nblocks(20, w)).via(rng.below(N_KS_VIA as u64) as u8).p(rng.next() as u128)),
            }
        } else {
            match rng.below(10) {
                3 => s.ops.push(Op::new("restart")),
                0 | 1 | 2 => s.ops.push(Op::new("seek").p(far_block(rng).min(u128::MAX / 32) * 16 + rng.below(16) as u128).ty(rng.below(2) as u8)),
                _ => s.ops.push(Op::new("apply").n(rng.nbytes(96, 16)).via(rng.below(N_APPLY_FORMS as u64) as u8)),
            }
        }
    }
    s
}

fn far_block(rng: &mut Rng) -> u128 {
    match rng.below(8) {
        0 => 0,
        1 | 2 => rng.below(40) as u128,
        3 => (1u128 << 32) - 2 + rng.below(5) as u128,
        4 => (1u128 << 64) - 3 + rng.below(6) as u128,
        5 => rng.u128() >> 8,
        _ => rng.below(1 << 16) as u128,
    }
}

fn exec(scn: &Scn, ctx: &mut Ctx) -> Verdict {
    if scn.mode != "belt" || scn.bs != 16 || scn.iv.len() != 16 {
        invalid!("mode");
    }
    let s0 = with_prim(scn, |p| model::belt_s0(p, &scn.iv));
    let layout = move |i: u128| model::belt_input(s0, i);
    ctx.probe_if(scn.cipher == crate::factory::CK::Belt, "real_belt");
    let conf = Conf { layout: &layout, limit_blocks: LIMIT, ctor_events: vec![scn.iv.clone()] };
    let v = stream_conformance(scn, ctx, &conf);
    let reached = ctx.max_pos;
    ctx.probe_if(v == Verdict::Ok && ctx.nontrivial && reached > u128::MAX - s0, "s_wraps_2_128");
    v
}
