//! C03 - CFB, CFB-8 and OFB compute exactly their defining recurrences.
//!
//! Scenario families (scn.mode):
//!   cfb.enc cfb.dec cfb8.enc cfb8.dec ofb.enc ofb.dec   block-level histories as in C02, optionally
//!                                                        ending in an AsyncStreamCipher one-shot with a
//!                                                        partial tail (cfb, cfb8)
//!   cfb.bufenc cfb.bufdec     bytes(n) | restart (get_state/from_state) | clone
//!   ofb  (nums.front = 0)     byte-stream wrapper: apply(n, via=form) | clone
//!   ofb  (nums.front = 1)     keystream core: ks(n blocks, via, p) | restart | clone
//! Oracle: reference model, step by step; seam invariant: no decrypt-direction block crosses the
//! cipher seam while data is processed (all types also run over the encrypt-only cipher).

use super::common::*;
use crate::engine::{CheckDef, Ctx, Verdict};
use crate::factory::{MkErr, make_buf, make_core, make_stream};
use crate::model;
use crate::obj::N_VIA;
use crate::prng::Rng;
use crate::scn::{Op, Scn};
use crate::simcipher::{DEC, env_clear_trace, env_events, env_mark};
use crate::sobj::{N_APPLY_FORMS, N_KS_VIA};
use crate::{invalid, violation};

pub fn def() -> CheckDef {
    CheckDef {
        id: "C03",
        level: "exploration",
        runs_quick: 250_000,
        runs_thorough: 5_000_000,
        rule: "seeded histories on cfb_mode/cfb8 Encryptor/Decryptor and OfbCore (as block encryptor, decryptor, keystream core), on the AsyncStreamCipher one-shots with a partial tail, on BufEncryptor/BufDecryptor with arbitrary chunking and state export/import, and on the Ofb byte stream; harness cipher with both directions or encrypt-only (block sizes 1,2,3,8,16,17,255; width per call from {1,2,3,5,8}) or AES-128/Magma/BelT; compared step by step with the reference recurrences; seam trace must contain no decrypt-direction block. distinct = distinct (mode, front end, block size, cipher, policy, op-kind/form/size-class sequence); non-trivial = processed >= 1 byte",
        required_probes: &["par_groups_then_tail", "bs1", "bs255", "enc_only_cipher", "async_partial_tail", "buf_mid_block_piece", "buf_long_call", "buf_restart_mid_block", "ofb_stream_partial", "cfb8_bs_not_16", "script_call", "core_one_shot"],
        r#gen,
        exec,
        components: "real code: cfb-mode, cfb8, ofb crates, cipher's BlockMode*/AsyncStreamCipher/StreamCipherCoreWrapper front ends; stub: block cipher (SimCipher / SimCipherEnc) in most runs, real AES-128/Magma/BelT in the rest; oracle: reference recurrences in sim/src/model.rs plus the recorded seam trace",
        assumptions: &["reference model and toy permutation are correct (self-tested at start-up)", "cipher/inout/hybrid-array crates are trusted", "sampling, not proof"],
        nondet_is_violation: false,
    }
}

const BLOCK: [&str; 6] = ["cfb.enc", "cfb.dec", "cfb8.enc", "cfb8.dec", "ofb.enc", "ofb.dec"];

fn r#gen(rng: &mut Rng, thorough: bool) -> Scn {
    let fam = rng.below(10);
    let maxops = if thorough { 12 } else { 8 };
    if fam < 5 {
        let mode = *rng.pick(&BLOCK);
        let pool = 64 + rng.usize(400);
        let mut s = base_scn(rng, "C03", mode, false, 1, pool);
        let w = s.pol[0].max_width() as u64;
        let maxb = if mode.starts_with("cfb8") { 3 * s.bs as u64 + 8 } else if s.bs == 255 { 12 } else { 28 };
        let nops = 1 + rng.usize(maxops);
        for _ in 0..nops {
            match rng.below(10) {
                0 => s.ops.push(Op::new("restart")),
                1 => s.ops.push(Op::new("clone")),
                _ => s.ops.push(Op::new("blocks").n(rng.nblocks(maxb, w)).via(rng.below(N_VIA as u64) as u8).p(rng.next() as u128)),
            }
        }
        if !mode.starts_with("ofb") && rng.chance(1, 2) {
            let n = rng.nbytes(12 * s.bs as u64, s.bs as u64);
            s.ops.push(Op::new("async").n(n).via(rng.below(3) as u8));
        }
        s
    } else if fam < 8 {
        let mode = if rng.chance(1, 2) { "cfb.bufenc" } else { "cfb.bufdec" };
        let pool = 64 + rng.usize(400);
        let mut s = base_scn(rng, "C03", mode, false, 1, pool);
        let nops = 1 + rng.usize(maxops);
        for _ in 0..nops {
            match rng.below(10) {
                0 => s.ops.push(Op::new("restart")),
                1 => s.ops.push(Op::new("clone")),
                2 => {
                    // one long call: many full blocks inside a single encrypt()/decrypt()
                    let bs = s.bs as u64;
                    let nb = 8 + rng.below(if bs > 200 { 6 } else { 20 });
                    s.ops.push(Op::new("bytes").n(nb * bs + rng.below(bs)));
                }
                _ => s.ops.push(Op::new("bytes").n(rng.nbytes(6 * s.bs as u64, s.bs as u64))),
            }
        }
        s
    } else {
        let pool = 64 + rng.usize(400);
        let mut s = base_scn(rng, "C03", "ofb", false, 1, pool);
        let w = s.pol[0].max_width() as u64;
        let core = rng.chance(1, 2);
        s.set_num("front", core as u128);
        let nops = 1 + rng.usize(maxops);
        for i in 0..nops {
            if core {
                match rng.below(10) {
                    0 => s.ops.push(Op::new("restart")),
                    1 => s.ops.push(Op::new("clone")),
                    _ => s.ops.push(Op::new("ks").n(rng.nblocks(20, w)).via(rng.below(N_KS_VIA as u64) as u8).p(rng.next() as u128)),
                }
                if i + 1 == nops && rng.chance(1, 3) {
                    // close with the consuming one-shot of the core (any byte length)
                    s.ops.push(Op::new("partial").n(rng.nbytes(6 * s.bs as u64, s.bs as u64)).via(rng.below(2) as u8));
                }
            } else {
                match rng.below(10) {
                    0 => s.ops.push(Op::new("clone")),
                    _ => s.ops.push(Op::new("apply").n(rng.nbytes(6 * s.bs as u64, s.bs as u64)).via(rng.below(N_APPLY_FORMS as u64) as u8)),
                }
            }
        }
        s
    }
}

fn model_run(scn: &Scn, input: &[u8]) -> (Vec<u8>, Vec<u8>) {
    with_prim(scn, |p| match scn.mode.as_str() {
        "cfb.enc" | "cfb.bufenc" => model::cfb(p, &scn.iv, input, false),
        "cfb.dec" | "cfb.bufdec" => model::cfb(p, &scn.iv, input, true),
        "cfb8.enc" => model::cfb8(p, &scn.iv, input, false),
        "cfb8.dec" => model::cfb8(p, &scn.iv, input, true),
        _ => model::ofb(p, &scn.iv, input),
    })
}

fn seam_ok(mark: usize) -> Option<String> {
    let r = env_events(mark).iter().find(|(e, _)| e.dir == DEC).map(|(e, _)| format!("path {}", e.path));
    env_clear_trace();
    r
}

fn exec(scn: &Scn, ctx: &mut Ctx) -> Verdict {
    let m = scn.mode.as_str();
    if BLOCK.contains(&m) {
        ctx.probe_if(m.starts_with("cfb8") && scn.bs != 16, "cfb8_bs_not_16");
        return block_history(scn, ctx, &model_run, true);
    }
    env_setup(scn, true);
    sig_base(ctx, scn);
    ctx.probe_if(scn.bs == 1, "bs1");
    ctx.probe_if(scn.bs == 255, "bs255");
    ctx.probe_if(scn.cipher == crate::factory::CK::SimEnc, "enc_only_cipher");
    let bs = scn.bs;
    match m {
        "cfb.bufenc" | "cfb.bufdec" => {
            let total: usize = scn.ops.iter().filter(|o| o.k == "bytes").map(|o| o.n as usize).sum();
            if total > 1 << 16 {
                invalid!("too long");
            }
            let input = scn.bytes(0, total);
            let (want, _) = model_run(scn, &input);
            let mut obj = match make_buf(m, bs, scn.cipher, &scn.key, &scn.iv, 0, 0, None) {
                Ok(o) => o,
                Err(MkErr::Unsupported) => invalid!("unsupported"),
                Err(MkErr::Rejected) => violation!("construct", "rejected"),
            };
            let mut done = 0usize;
            for (i, op) in scn.ops.iter().enumerate() {
                ctx.sig.s(&op.k);
                match op.k.as_str() {
                    "bytes" => {
                        let n = op.n as usize;
                        ctx.sig.u(((done % bs) as u64) << 16 | ((n % bs) as u64) << 4 | (n / bs).min(3) as u64);
                        ctx.probe_if(done % bs != 0 && n > 0, "buf_mid_block_piece");
                        ctx.probe_if(n >= 9 * bs, "buf_long_call");
                        ctx.probe_if(done % bs != 0 && (done + n) % bs == 0 && n > 0, "buf_piece_ends_on_boundary");
                        let mut buf = input[done..done + n].to_vec();
                        let mark = env_mark();
                        obj.proc(&mut buf);
                        if let Some(d) = seam_ok(mark) {
                            violation!("decrypt_direction", "op {}: decrypt-direction cipher call ({})", i, d);
                        }
                        ctx.fp.bytes(&buf);
                        ctx.nontrivial |= n > 0;
                        if buf != want[done..done + n] {
                            let d = first_diff(&buf, &want[done..done + n]);
                            violation!("output", "op {} (bytes {} at stream offset {}): byte {} differs: got {} want {}", i, n, done, done + d, hexs(&buf[d..]), hexs(&want[done + d..done + n]));
                        }
                        done += n;
                    }
                    "restart" => {
                        let (st, pos) = obj.state();
                        ctx.probe_if(pos != 0, "buf_restart_mid_block");
                        ctx.fault("restart_from_exported_state");
                        drop(obj);
                        obj = match make_buf(m, bs, scn.cipher, &scn.key, &st, 0, 0, Some(pos)) {
                            Ok(o) => o,
                            Err(_) => invalid!("from_state"),
                        };
                    }
                    "clone" => {
                        let c = obj.dup();
                        drop(obj);
                        obj = c;
                    }
                    _ => invalid!("op kind {}", op.k),
                }
                let (_, pos) = obj.state();
                if pos != done % bs {
                    violation!("state", "after op {}: get_state position {} != stream offset {} mod block size", i, pos, done);
                }
            }
            Verdict::Ok
        }
        "ofb" if scn.num("front") == 0 => {
            let total: usize = scn.ops.iter().filter(|o| o.k == "apply").map(|o| o.n as usize).sum();
            if total > 1 << 16 {
                invalid!("too long");
            }
            let input = scn.bytes(0, total);
            let (want, _) = model_run(scn, &input);
            let mut obj = match make_stream("ofb", bs, scn.cipher, &scn.key, &scn.iv, 0, 0) {
                Ok(o) => o,
                Err(MkErr::Unsupported) => invalid!("unsupported"),
                Err(MkErr::Rejected) => violation!("construct", "rejected"),
            };
            let mut done = 0usize;
            for (i, op) in scn.ops.iter().enumerate() {
                ctx.sig.s(&op.k);
                match op.k.as_str() {
                    "apply" => {
                        let n = op.n as usize;
                        let form = op.via % N_APPLY_FORMS;
                        ctx.sig.u((form as u64) << 24 | ((done % bs) as u64) << 16 | ((n % bs) as u64) << 4 | (n / bs).min(3) as u64);
                        ctx.probe_if(done % bs != 0 || n % bs != 0, "ofb_stream_partial");
                        let mut out = scn.dirt(done, n);
                        let mark = env_mark();
                        let r = obj.apply(form, &input[done..done + n], &mut out);
                        if let Some(d) = seam_ok(mark) {
                            violation!("decrypt_direction", "op {}: decrypt-direction cipher call ({})", i, d);
                        }
                        if r.is_err() {
                            violation!("apply_err", "op {}: OFB has no keystream limit but apply({}) failed", i, n);
                        }
                        ctx.fp.bytes(&out);
                        ctx.nontrivial |= n > 0;
                        if out != want[done..done + n] {
                            let d = first_diff(&out, &want[done..done + n]);
                            violation!("output", "op {} (apply {} form {} at offset {}): byte {} differs", i, n, form, done, done + d);
                        }
                        done += n;
                    }
                    "clone" => {
                        let c = match obj.dup() {
                            Some(c) => c,
                            None => invalid!("not cloneable"),
                        };
                        drop(obj);
                        obj = c;
                    }
                    _ => invalid!("op kind {}", op.k),
                }
            }
            Verdict::Ok
        }
        "ofb" => {
            let total: usize = scn.ops.iter().filter(|o| o.k == "ks").map(|o| o.n as usize).sum();
            let tailn: usize = scn.ops.iter().filter(|o| o.k == "partial").map(|o| o.n as usize).sum();
            if total > 4096 || tailn > 1 << 14 {
                invalid!("too long");
            }
            let input = scn.bytes(0, total * bs + tailn);
            let (want, _) = model_run(scn, &input);
            let mut obj = match make_core("ofb", bs, scn.cipher, &scn.key, &scn.iv, 0, 0) {
                Ok(o) => o,
                Err(MkErr::Unsupported) => invalid!("unsupported"),
                Err(MkErr::Rejected) => violation!("construct", "rejected"),
            };
            let mut done = 0usize;
            let w = scn.pol[0].max_width() as u64;
            for (i, op) in scn.ops.iter().enumerate() {
                ctx.sig.s(&op.k);
                match op.k.as_str() {
                    "ks" => {
                        let n = op.n as usize * bs;
                        let via = op.via % N_KS_VIA;
                        ctx.sig.u((via as u64) << 16 | size_class(op.n, w));
                        ctx.probe_if(via == 6, "script_call");
                        let mut out = scn.dirt(done, n);
                        let mark = env_mark();
                        obj.ks(via, op.p as u64, &input[done..done + n], &mut out);
                        if let Some(d) = seam_ok(mark) {
                            violation!("decrypt_direction", "op {}: decrypt-direction cipher call ({})", i, d);
                        }
                        ctx.fp.bytes(&out);
                        ctx.nontrivial |= n > 0;
                        if out != want[done..done + n] {
                            let d = first_diff(&out, &want[done..done + n]) / bs;
                            violation!("output", "op {} (ks {} blocks via {}): keystream block {} differs", i, op.n, via, done / bs + d);
                        }
                        done += n;
                    }
                    "partial" => {
                        if i + 1 != scn.ops.len() {
                            invalid!("partial must be last");
                        }
                        let n = op.n as usize;
                        let mut out = scn.dirt(done, n);
                        let mark = env_mark();
                        let r = obj.partial(op.via % 2 == 1, &input[done..done + n], &mut out);
                        if let Some(d) = seam_ok(mark) {
                            violation!("decrypt_direction", "op {}: decrypt-direction cipher call ({})", i, d);
                        }
                        ctx.probe("core_one_shot");
                        if r.is_err() {
                            violation!("apply_err", "op {}: OfbCore one-shot on {} bytes failed", i, n);
                        }
                        if out != want[done..done + n] {
                            let d = first_diff(&out, &want[done..done + n]);
                            violation!("output", "op {} (one-shot apply_keystream_partial on {} bytes after {} blocks): byte {} differs from the recurrence", i, n, done / bs, d);
                        }
                        return Verdict::Ok;
                    }
                    "restart" => {
                        let st = obj.export().unwrap();
                        ctx.fault("restart_from_exported_state");
                        drop(obj);
                        obj = match make_core("ofb", bs, scn.cipher, &scn.key, &st, 0, 0) {
                            Ok(o) => o,
                            Err(_) => invalid!("import"),
                        };
                    }
                    "clone" => {
                        let c = obj.dup().unwrap();
                        drop(obj);
                        obj = c;
                    }
                    _ => invalid!("op kind {}", op.k),
                }
                let (_, chain) = model_run(scn, &input[..done]);
                let st = obj.export().unwrap();
                if st != chain {
                    violation!("state", "after op {}: OfbCore iv_state {} != O_{} = {}", i, hexs(&st), done / bs, hexs(&chain));
                }
            }
            Verdict::Ok
        }
        _ => invalid!("mode {}", m),
    }
}
