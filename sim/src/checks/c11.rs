//! C11 - a keystream never wraps around silently: exhaustion is an error, not reuse.
//!
//! Resource-exhaustion fault.  An instance is PLACED nums.d blocks before its limit L
//! (2^w - 1 blocks for CTR, 2^128 - 1 for BelT-CTR) at byte offset nums.o inside the block, either
//! by try_seek (32/64-bit flavours, nums.place = 0) or by set_block_pos on a core + from_core +
//! consuming nums.o bytes (nums.place = 1; the only route for 128-bit flavours and BelT).  Then a
//! short history over the CHECKED API only:
//!   tryapply(n, via=form) | seek(p, ty) | pos(ty) | rem | clone | jump(k, dir)
//! Oracle: a request succeeds iff it fits; one ending exactly at the limit succeeds and leaves
//! remaining_blocks = Some(0); on failure the caller's buffers are byte-identical, the reported
//! position is unchanged and the following bytes (twin = clone taken before the call) are
//! unchanged; remaining_blocks, when Some, equals L - blocks generated; try_seek(p) succeeds iff
//! p <= L*bs.  Seam invariant: over the life of the instance no cipher input value serves two
//! different block positions.  jump = a second core over the same key and IV set 2^k blocks away
//! (modulo the counter width) replaces the instance; the seam invariant keeps running across it,
//! so reuse between far-apart positions of the same keystream is visible too.
//! The unchecked StreamCipherCore block methods are placement tools only (documented as not
//! checking the limit).

use super::c04::{flavor_of, gen_ctr_iv, limit_blocks};
use super::common::*;
use crate::engine::{CheckDef, Ctx, Verdict};
use crate::factory::{MkErr, make_core, make_stream};
use crate::prng::Rng;
use crate::scn::{Op, Scn};
use crate::simcipher::{env_clear_trace, env_events, env_mark};
use crate::sobj::{SeekFail, StreamObj};
use crate::{invalid, violation};
use std::collections::HashMap;

pub fn def() -> CheckDef {
    CheckDef {
        id: "C11",
        level: "fault_enumeration",
        runs_quick: 800_000,
        runs_thorough: 25_000_000,
        rule: "keystream-exhaustion fault: every one of the seven limited stream ciphers (six CTR flavours, BeltCtr) is placed d in 0..6 blocks before its limit at every kind of in-block offset, by seek or by core positioning, and driven across the limit with try_apply_keystream (4 checked forms; lengths 0..(d+2) blocks incl. exactly-at-limit and one-byte-too-long), try_seek around the limit, try_current_pos, remaining_blocks, clone. evaluations = scenarios; fault = a request that does not fit. distinct = distinct (type, block size, cipher, policy, d, offset class, op/outcome sequence); non-trivial = >= 1 request that crosses or touches the limit",
        required_probes: &["request_ends_exactly_at_limit", "request_one_byte_too_long", "failure_with_half_used_block", "limit_128bit", "limit_belt", "seek_exactly_to_limit", "seek_beyond_limit_rejected", "remaining_some_checked", "placed_by_seek", "placed_by_core", "placed_mid_stream", "jumped_same_keystream"],
        r#gen,
        exec,
        components: "real code: ctr and belt-ctr crates (remaining_blocks, counters) and cipher's StreamCipherCoreWrapper (check_remaining, try_seek); stub: block cipher in most runs, real ciphers in the rest; the twin for 'following bytes unchanged' is a clone of the real object taken before the failing call",
        assumptions: &["StreamCipherCore::{write,apply}_keystream_block* are documented as not checking the limit and are used for placement only", "sampling of scenarios; within each, the limit is crossed deliberately"],
        nondet_is_violation: false,
    }
}

const LIMITED: [&str; 7] = ["ctr32be", "ctr32le", "ctr64be", "ctr64le", "ctr128be", "ctr128le", "belt"];
const FORMS: [u8; 4] = [0, 1, 2, 5];

fn lim_of(mode: &str) -> u128 {
    flavor_of(mode).map(limit_blocks).unwrap_or(u128::MAX)
}

fn r#gen(rng: &mut Rng, thorough: bool) -> Scn {
    let mode = *rng.pick(&LIMITED);
    let pool = 64 + rng.usize(300);
    let mut s = base_scn(rng, "C11", mode, false, 1, pool);
    if let Some(fl) = flavor_of(mode) {
        s.iv = gen_ctr_iv(rng, fl, s.bs);
    }
    let bs = s.bs as u64;
    let small = flavor_of(mode).map(|f| f.bits < 128).unwrap_or(false);
    let d = rng.below(7);
    let o = match rng.below(4) {
        0 => 0,
        1 => 1,
        2 => bs - 1,
        _ => rng.below(bs),
    };
    // (L-d)*bs + o must not lie beyond the limit
    let o = if d == 0 { 0 } else { o };
    s.set_num("d", d as u128);
    s.set_num("o", o as u128);
    s.set_num("place", if small { rng.below(2) } else { 1 } as u128);
    if rng.chance(1, 5) {
        // mid-stream: far from both ends; every request fits, remaining_blocks must still be exact
        let l = lim_of(mode);
        let p: u128 = match rng.below(6) {
            0 => (1u128 << 32) - 2,
            1 => (1u128 << 64) - 2,
            2 => (1u128 << 65) - 2,
            3 => ((rng.u128() >> 8) << 64) | (u64::MAX - rng.below(8)) as u128,
            4 => rng.u128() >> rng.below(120),
            _ => rng.below(1 << 40) as u128,
        };
        if p + 64 < l {
            s.set_num("place", 2);
            s.set_num("posblk", p);
            s.set_num("d", 0);
        }
    }
    let l = lim_of(mode);
    let nops = 1 + rng.usize(if thorough { 8 } else { 6 });
    let mut rem_bytes = d * bs - o; // what is left, tracked roughly for biasing
    for _ in 0..nops {
        match rng.below(12) {
            0 | 1 if small => {
                // seek around the limit; the known-finding pattern (block L, offset > 0) is kept rare
                let lb = l * bs as u128;
                let p = match rng.below(400) {
                    0 => lb + 1 + rng.below(bs - 1) as u128,
                    1..=80 => lb,
                    81..=140 => lb + (1 + rng.below(3)) as u128 * bs as u128 + rng.below(bs) as u128,
                    _ => lb - rng.below(5 * bs) as u128,
                };
                s.ops.push(Op::new("seek").p(p).ty(1 + rng.below(2) as u8));
                rem_bytes = if p <= lb { (lb - p).min(1 << 30) as u64 } else { 0 };
            }
            2 => s.ops.push(Op::new("pos").ty(rng.below(5) as u8)),
            3 => s.ops.push(Op::new("rem")),
            4 if mode != "belt" => s.ops.push(Op::new("clone")),
            5 => {
                // jump: the same keystream (same key, same IV) re-entered 2^k blocks away, modulo
                // the counter width; the seam invariant keeps running across the jump
                let k = match rng.below(6) {
                    0 => 31,
                    1 => 32,
                    2 => 63,
                    3 | 4 => 64,
                    _ => 1 + rng.below(126),
                };
                s.ops.push(Op::new("jump").n(k).ty(rng.below(2) as u8));
                s.ops.push(Op::new("tryapply").n(1 + rng.below(3 * bs)).via(rng.below(4) as u8));
            }
            _ => {
                let n = match rng.below(8) {
                    0 => rem_bytes,
                    1 => rem_bytes + 1,
                    2 => rem_bytes.saturating_sub(1),
                    3 => rem_bytes + bs,
                    4 => 0,
                    5 => rng.below(bs + 1),
                    _ => rng.below(rem_bytes + 2 * bs + 1),
                };
                s.ops.push(Op::new("tryapply").n(n).via(rng.below(4) as u8));
                if n <= rem_bytes {
                    rem_bytes -= n;
                }
            }
        }
    }
    s
}

struct Track {
    nb: u128,  // whole blocks before the position
    off: usize, // offset inside the block
}
impl Track {
    /// bytes left before the limit, saturating
    fn left(&self, l: u128, bs: usize) -> u128 {
        if self.nb > l {
            return 0;
        }
        (l - self.nb).saturating_mul(bs as u128).saturating_sub(self.off as u128)
    }
    fn generated(&self) -> u128 {
        self.nb + (self.off > 0) as u128
    }
}

fn place(scn: &Scn, tag: u8, l: u128, ctx: &mut Ctx) -> Result<Box<dyn StreamObj>, Verdict> {
    let bs = scn.bs;
    let mid = scn.num("place") == 2;
    let d = if mid { l - scn.num("posblk").min(l) } else { scn.num("d") };
    let o = scn.num("o") as usize;
    if (!mid && d > 64) || o >= bs || (d == 0 && o != 0) {
        return Err(Verdict::Invalid("placement".into()));
    }
    ctx.probe_if(mid, "placed_mid_stream");
    let small = flavor_of(&scn.mode).map(|f| f.bits < 128).unwrap_or(false);
    if scn.num("place") == 0 && small {
        let mut w = make_stream(&scn.mode, bs, scn.cipher, &scn.key, &scn.iv, tag, 0).map_err(|e| match e {
            MkErr::Unsupported => Verdict::Invalid("unsupported".into()),
            _ => Verdict::Violation { clause: "construct".into(), detail: "rejected".into() },
        })?;
        let p = (l - d) * bs as u128 + o as u128;
        match w.seek(if p > u64::MAX as u128 { 2 } else { 1 }, p) {
            Ok(()) => {}
            Err(_) => return Err(Verdict::Violation { clause: "seek_err".into(), detail: format!("placement: try_seek({}) failed although the position is {} blocks before the limit", p, d) }),
        }
        ctx.probe("placed_by_seek");
        Ok(w)
    } else {
        let mut c = make_core(&scn.mode, bs, scn.cipher, &scn.key, &scn.iv, tag, 0).map_err(|e| match e {
            MkErr::Unsupported => Verdict::Invalid("unsupported".into()),
            _ => Verdict::Violation { clause: "construct".into(), detail: "rejected".into() },
        })?;
        if c.set_pos(l - d) != Some(true) {
            return Err(Verdict::Invalid("set_block_pos".into()));
        }
        let mut w = c.into_stream();
        if o > 0 {
            let z = vec![0u8; o];
            let mut out = vec![0u8; o];
            if w.apply(0, &z, &mut out).is_err() {
                return Err(Verdict::Violation { clause: "apply_err".into(), detail: format!("placement: consuming {} bytes {} blocks before the limit failed", o, d) });
            }
        }
        ctx.probe("placed_by_core");
        Ok(w)
    }
}

fn exec(scn: &Scn, ctx: &mut Ctx) -> Verdict {
    if !LIMITED.contains(&scn.mode.as_str()) {
        invalid!("mode");
    }
    env_setup(scn, true);
    sig_base(ctx, scn);
    let bs = scn.bs;
    let bsu = bs as u128;
    let l = lim_of(&scn.mode);
    let small = flavor_of(&scn.mode).map(|f| f.bits < 128).unwrap_or(false);
    ctx.sig.u((scn.num("d") as u64) << 16 | ((scn.num("o") != 0) as u64) << 8 | scn.num("place") as u64);
    let mut w = match place(scn, 0, l, ctx) {
        Ok(w) => w,
        Err(v) => return v,
    };
    let d0 = if scn.num("place") == 2 { l - scn.num("posblk").min(l) } else { scn.num("d") };
    let mut t = Track { nb: l - d0, off: scn.num("o") as usize };
    // seam: cipher input -> block index must be a function
    let mut seen: HashMap<Vec<u8>, u128> = HashMap::new();
    {
        // blocks generated by the placement itself (E(IV) of BelT is not a keystream block)
        let evs: Vec<_> = env_events(0).into_iter().filter(|(e, _)| e.tag == 0).collect();
        if t.off > 0 {
            if let Some((_, b)) = evs.last() {
                seen.insert(b.clone(), t.nb);
            }
        }
        env_clear_trace();
    }
    ctx.probe_if(!small && scn.mode != "belt", "limit_128bit");
    ctx.probe_if(scn.mode == "belt", "limit_belt");
    let mut off_data = 0usize;
    for (i, op) in scn.ops.iter().enumerate() {
        ctx.sig.s(&op.k);
        let mark = env_mark();
        match op.k.as_str() {
            "tryapply" => {
                let n = op.n as usize;
                if n > 1 << 14 {
                    invalid!("too long");
                }
                let form = FORMS[(op.via % 4) as usize];
                let left = t.left(l, bs);
                let fits = n as u128 <= left;
                ctx.sig.u((form as u64) << 20 | (fits as u64) << 16 | ((n as u128 == left) as u64) << 15 | (t.off != 0) as u64);
                ctx.probe_if(n as u128 == left && n > 0, "request_ends_exactly_at_limit");
                ctx.probe_if(Some(n as u128) == left.checked_add(1), "request_one_byte_too_long");
                ctx.probe_if(!fits && t.off != 0, "failure_with_half_used_block");
                ctx.nontrivial |= n as u128 + bsu > left;
                let inp = scn.bytes(off_data, n);
                let dirt = scn.dirt(off_data, n);
                let mut out = dirt.clone();
                // twin and observations before the call
                let twin = w.dup();
                let pos_before = (w.pos(2), w.pos(1), w.block_pos(), w.remaining_blocks());
                let r = w.apply(form, &inp, &mut out);
                if !fits {
                    ctx.fault("request_beyond_keystream_limit");
                }
                match (r, fits) {
                    (Ok(()), true) => {
                        // which blocks were generated: sequentially from t.generated()
                        let first = t.generated();
                        for (j, (_, bytes)) in env_events(mark).iter().filter(|(e, _)| e.tag == 0).enumerate() {
                            let blk = first + j as u128;
                            if let Some(prev) = seen.insert(bytes.clone(), blk) {
                                if prev != blk {
                                    violation!("counter_reuse", "op {}: cipher input {} generated for block {} was already used for block {}", i, hexs(bytes), blk, prev);
                                }
                            }
                        }
                        let total = t.off + n;
                        t.nb += (total / bs) as u128;
                        t.off = total % bs;
                        if n as u128 == left && n > 0 {
                            if w.remaining_blocks() != Some(0) {
                                violation!("remaining", "op {}: after a request ending exactly at the limit remaining_blocks() = {:?}, expected Some(0)", i, w.remaining_blocks());
                            }
                        }
                        ctx.fp.bytes(&out);
                    }
                    (Err(()), false) => {
                        let unchanged = if crate::sobj::apply_form_in_place(form) { out == inp } else { out == dirt };
                        if !unchanged {
                            violation!("buffer_modified", "op {}: try_apply_keystream form {} of {} bytes failed ({} bytes left) but modified the caller's buffer", i, form, n, left);
                        }
                        let pos_after = (w.pos(2), w.pos(1), w.block_pos(), w.remaining_blocks());
                        if pos_after != pos_before {
                            violation!("position_moved", "op {}: failed request moved the position: {:?} -> {:?}", i, pos_before, pos_after);
                        }
                        if let Some(mut tw) = twin {
                            // the following bytes are the ones the untouched twin produces
                            let m = left.min(bsu + 3) as usize;
                            let z = scn.bytes(off_data + 5, m);
                            let (mut a, mut b) = (vec![0u8; m], vec![0u8; m]);
                            let mut wc = w.dup().unwrap();
                            let (ra, rb) = (wc.apply(0, &z, &mut a), tw.apply(0, &z, &mut b));
                            if ra != rb || a != b {
                                violation!("state_damaged", "op {}: after a failed request the next {} bytes differ from those of a clone taken before it", i, m);
                            }
                        }
                        env_clear_trace();
                    }
                    (Ok(()), false) => violation!("overrun_accepted", "op {}: try_apply_keystream of {} bytes succeeded although only {} keystream bytes are left before the limit (block {} offset {})", i, n, left, t.nb, t.off),
                    (Err(()), true) => violation!("fitting_request_rejected", "op {}: try_apply_keystream of {} bytes failed although {} keystream bytes are left (block {} offset {})", i, n, left, t.nb, t.off),
                }
                off_data += n;
            }
            "seek" => {
                if !small {
                    invalid!("byte positions near the limit are not representable for this type");
                }
                let lb = l * bsu;
                let p = op.p;
                let ty = if p > u64::MAX as u128 { 2 } else { 1 + op.ty % 2 };
                if p > lb + 4 * bsu + 256 {
                    invalid!("seek target far beyond");
                }
                let should = p <= lb;
                ctx.sig.u((should as u64) << 8 | ((p == lb) as u64) << 4 | (p % bsu != 0) as u64);
                ctx.nontrivial = true;
                let r = w.seek(ty, p);
                match (r, should) {
                    (Err(SeekFail::Unrepresentable), _) => invalid!("unrepresentable"),
                    (Ok(()), true) => {
                        ctx.probe_if(p == lb, "seek_exactly_to_limit");
                        t.nb = p / bsu;
                        t.off = (p % bsu) as usize;
                        for (_, bytes) in env_events(mark).iter().filter(|(e, _)| e.tag == 0) {
                            if let Some(prev) = seen.insert(bytes.clone(), t.nb) {
                                if prev != t.nb {
                                    violation!("counter_reuse", "op {}: cipher input {} generated for block {} was already used for block {}", i, hexs(bytes), t.nb, prev);
                                }
                            }
                        }
                        env_clear_trace();
                    }
                    (Err(SeekFail::Err), false) => {
                        ctx.probe("seek_beyond_limit_rejected");
                        ctx.fault("seek_beyond_keystream_limit");
                    }
                    (Ok(()), false) => {
                        ctx.fault("seek_beyond_keystream_limit");
                        violation!("seek_past_limit", "op {}: try_seek({}) returned Ok although the keystream ends at byte {} (block index {} of {}, byte offset {}); block_pos afterwards {:?}", i, p, lb, p / bsu, l, p % bsu, w.block_pos())
                    }
                    (Err(SeekFail::Err), true) => violation!("seek_err", "op {}: try_seek({}) failed although the keystream ends at byte {}", i, p, lb),
                }
            }
            "pos" => {
                let ty = op.ty % 5;
                let max = crate::sobj::seek_type_max(ty);
                // the byte position, if it is expressible at all
                let p = t.nb.checked_mul(bsu).and_then(|v| v.checked_add(t.off as u128));
                match (w.pos(ty), p) {
                    (Ok(v), Some(p)) if v == p => {}
                    (Ok(v), p) => violation!("position", "op {}: try_current_pos::<{}>() = {} but the position is block {} offset {} ({:?})", i, crate::sobj::SEEK_TYPES[ty as usize], v, t.nb, t.off, p),
                    (Err(()), Some(p)) if p.checked_add(bsu).map(|e| e <= max).unwrap_or(false) => violation!("position", "op {}: try_current_pos::<{}>() failed although position {} fits", i, crate::sobj::SEEK_TYPES[ty as usize], p),
                    (Err(()), _) => {}
                }
            }
            "rem" => {
                if let Some(r) = w.remaining_blocks() {
                    ctx.probe("remaining_some_checked");
                    let want = l - t.generated();
                    if r as u128 != want {
                        violation!("remaining", "op {}: remaining_blocks() = {} but {} of {} blocks have been generated (expected {})", i, r, t.generated(), l, want);
                    }
                } else if l - t.generated() <= u32::MAX as u128 {
                    violation!("remaining", "op {}: remaining_blocks() = None although only {} blocks remain", i, l - t.generated());
                }
            }
            "jump" => {
                // a second core over the same key and IV, positioned 2^k blocks away (modulo the
                // counter width): it continues the SAME keystream, so no cipher input it produces
                // may have served another block position of this history
                let wbits = flavor_of(&scn.mode).map(|f| f.bits as u32).unwrap_or(128);
                let k = (op.n as u32) % wbits;
                let mask = if wbits == 128 { u128::MAX } else { (1u128 << wbits) - 1 };
                let step = 1u128 << k;
                let target = if op.ty % 2 == 0 { t.generated().wrapping_add(step) } else { t.generated().wrapping_sub(step) } & mask;
                if target < l {
                    let mut c = match make_core(&scn.mode, bs, scn.cipher, &scn.key, &scn.iv, 0, 0) {
                        Ok(c) => c,
                        Err(_) => invalid!("unsupported"),
                    };
                    if c.set_pos(target) != Some(true) {
                        invalid!("set_block_pos");
                    }
                    w = c.into_stream();
                    t.nb = target;
                    t.off = 0;
                    ctx.probe("jumped_same_keystream");
                    ctx.probe_if(target > (1u128 << 127) && wbits == 128, "jumped_across_zero_128bit");
                    ctx.sig.u((k as u64) << 8 | (op.ty % 2) as u64);
                    env_clear_trace();
                }
            }
            "clone" => {
                if let Some(c) = w.dup() {
                    w = c;
                }
            }
            _ => invalid!("op"),
        }
    }
    Verdict::Ok
}
