//! C02 - CBC, PCBC and IGE compute exactly their defining recurrences, both directions.
//!
//! Scenario: one encryptor or decryptor of the three crates driven by a history of
//!   blocks(n, via, p=script seed)   process n blocks through call form `via`
//!   restart                          export iv_state, drop, rebuild a fresh instance from it
//!   clone                            continue on a clone, drop the original
//! For decryptors the input is arbitrary bytes (nums.honest = 0), an honest ciphertext (1) or an
//! honest ciphertext with one flipped bit (2).
//! Oracle (reference model, step by step): after every operation the bytes produced so far and
//! the exported chaining value equal the model's.

use super::common::*;
use crate::engine::{CheckDef, Ctx, Verdict};
use crate::factory::{MkErr, make_block};
use crate::model;
use crate::obj::{N_VIA, via_single};
use crate::prng::Rng;
use crate::scn::{Op, Scn};
use crate::{invalid, violation};

pub fn def() -> CheckDef {
    CheckDef {
        id: "C02",
        level: "exploration",
        runs_quick: 150_000,
        runs_thorough: 3_000_000,
        rule: "seeded histories (1-12 ops: blocks via 9 call forms incl. driver scripts over the backend, restart-from-exported-state, clone) on cbc/pcbc/ige Encryptor/Decryptor over the harness cipher (block sizes 1,2,3,8,16,17,255; backend width per call from {1,2,3,5,8}) or AES-128/Magma/Kuznyechik; compared step by step with the reference recurrences. distinct = distinct (mode, block size, cipher, width policy, op-kind/call-form/size-class sequence); non-trivial = processed >= 1 block",
        required_probes: &["par_groups_then_tail", "dishonest_ciphertext", "bs1", "bs255", "restart", "script_call", "state_after_tail"],
        r#gen,
        exec,
        components: "real code: cbc, pcbc, ige crates and the cipher crate's BlockMode* front ends; stub: block cipher (SimCipher toy permutation) in most runs, real AES-128/Magma/Kuznyechik in the rest; oracle: reference recurrences in sim/src/model.rs",
        assumptions: &["reference model and toy permutation are correct (self-tested at start-up)", "cipher/inout/hybrid-array crates are trusted", "sampling, not proof"],
    }
}

const MODES: [&str; 6] = ["cbc.enc", "cbc.dec", "pcbc.enc", "pcbc.dec", "ige.enc", "ige.dec"];

fn r#gen(rng: &mut Rng, thorough: bool) -> Scn {
    let mode = *rng.pick(&MODES);
    let pool = 64 + rng.usize(400);
    let mut s = base_scn(rng, "C02", mode, true, 1, pool);
    let w = s.pol[0].max_width() as u64;
    let nops = 1 + rng.usize(if thorough { 12 } else { 8 });
    let maxb = if s.bs == 255 { 12 } else { 28 };
    for _ in 0..nops {
        match rng.below(10) {
            0 => s.ops.push(Op::new("restart")),
            1 => s.ops.push(Op::new("clone")),
            _ => s.ops.push(Op::new("blocks").n(rng.nblocks(maxb, w)).via(rng.below(N_VIA as u64) as u8).p(rng.next() as u128)),
        }
    }
    if mode.ends_with("dec") {
        s.set_num("honest", rng.below(3) as u128);
        s.set_num("flip", rng.below(4096) as u128);
    }
    s
}

fn model_run(scn: &Scn, input: &[u8]) -> (Vec<u8>, Vec<u8>) {
    with_prim(scn, |p| match scn.mode.as_str() {
        "cbc.enc" => model::cbc_enc(p, &scn.iv, input),
        "cbc.dec" => model::cbc_dec(p, &scn.iv, input),
        "pcbc.enc" => model::pcbc_enc(p, &scn.iv, input),
        "pcbc.dec" => model::pcbc_dec(p, &scn.iv, input),
        "ige.enc" => model::ige_enc(p, &scn.iv, input),
        _ => model::ige_dec(p, &scn.iv, input),
    })
}

fn exec(scn: &Scn, ctx: &mut Ctx) -> Verdict {
    if !MODES.contains(&scn.mode.as_str()) {
        invalid!("mode");
    }
    env_setup(scn, false);
    let bs = scn.bs;
    let total: usize = scn.ops.iter().filter(|o| o.k == "blocks").map(|o| o.n as usize).sum();
    if total > 4096 {
        invalid!("too long");
    }
    // the whole input stream
    let mut input = scn.bytes(0, total * bs);
    let honest = scn.num("honest");
    if scn.mode.ends_with("dec") && honest > 0 && total > 0 {
        // an honest ciphertext of the pool data, produced by the *model* (it is only input here)
        let enc_mode = scn.mode.replace("dec", "enc");
        let mut s2 = scn.clone();
        s2.mode = enc_mode;
        input = model_run(&s2, &input).0;
        if honest == 2 {
            let bit = scn.num("flip") as usize % (input.len() * 8);
            input[bit / 8] ^= 1 << (bit % 8);
            ctx.fault("ciphertext_bit_flip");
        }
    } else if scn.mode.ends_with("dec") {
        ctx.probe("dishonest_ciphertext");
    }
    let (want, _) = model_run(scn, &input);

    let mut obj = match make_block(&scn.mode, bs, scn.cipher, &scn.key, &scn.iv, 0, 0) {
        Ok(o) => o,
        Err(MkErr::Unsupported) => invalid!("unsupported combination"),
        Err(MkErr::Rejected) => violation!("construct", "inner_iv_init path rejected a correct key/iv"),
    };
    sig_base(ctx, scn);
    ctx.probe_if(bs == 1, "bs1");
    ctx.probe_if(bs == 255, "bs255");
    let mut done = 0usize; // blocks
    let w = scn.pol[0].max_width() as u64;
    let mut last_tail = false;
    for (i, op) in scn.ops.iter().enumerate() {
        ctx.sig.s(&op.k);
        match op.k.as_str() {
            "blocks" => {
                let n = op.n as usize;
                let via = op.via % N_VIA;
                ctx.sig.u(via as u64);
                ctx.sig.u(size_class(op.n, w));
                let inp = &input[done * bs..(done + n) * bs];
                let mut out = scn.dirt(done * bs, n * bs);
                let st0 = crate::simcipher::env_stats();
                obj.proc(via, op.p as u64, inp, &mut out);
                let st1 = crate::simcipher::env_stats();
                ctx.fp.bytes(&out);
                let par = st1.par_groups - st0.par_groups;
                // the modes do not forward tail calls: a tail shows up as single blocks after parallel groups
                let tail = if par > 0 { st1.singles - st0.singles } else { 0 };
                ctx.probe_if(par >= 2 && tail > 0, "par_groups_then_tail");
                ctx.probe_if(par > 0, "par_group");
                ctx.probe_if(via == crate::obj::VIA_SCRIPT || via == crate::obj::VIA_SCRIPT_B2B, "script_call");
                last_tail = tail > 0;
                if n > 0 {
                    ctx.nontrivial = true;
                }
                let exp = &want[done * bs..(done + n) * bs];
                if out != exp {
                    let d = first_diff(&out, exp);
                    violation!(
                        "output",
                        "op {} ({} blocks via {}{}): output differs from the recurrence at block {} (stream block {}): got {} want {}",
                        i, n, via, if via_single(via) { " single" } else { "" }, d / bs, done + d / bs,
                        hexs(&out[d / bs * bs..(d / bs + 1) * bs]), hexs(&exp[d / bs * bs..(d / bs + 1) * bs])
                    );
                }
                done += n;
            }
            "restart" => {
                let st = match obj.export() {
                    Some(s) => s,
                    None => invalid!("no export"),
                };
                drop(obj);
                obj = match make_block(&scn.mode, bs, scn.cipher, &scn.key, &st, 0, 0) {
                    Ok(o) => o,
                    Err(_) => violation!("restart", "exported state of length {} rejected by inner_iv_init path", st.len()),
                };
                ctx.probe("restart");
                ctx.fault("restart_from_exported_state");
            }
            "clone" => {
                let c = obj.dup();
                drop(obj);
                obj = c;
                ctx.probe("clone");
            }
            _ => invalid!("op kind {}", op.k),
        }
        // chaining value after every operation
        let (_, chain) = model_run(scn, &input[..done * bs]);
        match obj.export() {
            Some(st) => {
                ctx.fp.bytes(&st);
                ctx.probe_if(last_tail && op.k == "blocks", "state_after_tail");
                if st != chain {
                    violation!("state", "after op {} ({}): iv_state {} != model chaining value {} after {} blocks", i, op.k, hexs(&st), hexs(&chain), done);
                }
            }
            None => invalid!("no export"),
        }
    }
    Verdict::Ok
}
