//! C02 - CBC, PCBC and IGE compute exactly their defining recurrences, both directions.
//!
//! Scenario: one encryptor or decryptor of the three crates driven by a history of
//!   blocks(n, via, p=script seed)   process n blocks through call form `via`
//!   restart                          export iv_state, drop, rebuild a fresh instance from it
//!   clone                            continue on a clone, drop the original
//! For decryptors the input is arbitrary bytes (nums.honest = 0), an honest ciphertext (1) or an
//! honest ciphertext with one flipped bit (2).
//! Oracle (reference model, step by step): after every operation the bytes produced so far and
//! the exported chaining value equal the model's.

use super::common::*;
use crate::engine::{CheckDef, Ctx, Verdict};
use crate::model;
use crate::obj::N_VIA;
use crate::prng::Rng;
use crate::scn::{Op, Scn};
use crate::invalid;

pub fn def() -> CheckDef {
    CheckDef {
        id: "C02",
        level: "exploration",
        runs_quick: 500_000,
        runs_thorough: 10_000_000,
        rule: "seeded histories (1-12 ops: blocks via 9 call forms incl. driver scripts over the backend, restart-from-exported-state, clone) on cbc/pcbc/ige Encryptor/Decryptor over the harness cipher (block sizes 1,2,3,8,16,17,255; backend width per call from {1,2,3,5,8}) or AES-128/Magma/Kuznyechik; compared step by step with the reference recurrences. distinct = distinct (mode, block size, cipher, width policy, op-kind/call-form/size-class sequence); non-trivial = processed >= 1 block",
        required_probes: &["par_groups_then_tail", "dishonest_ciphertext", "bs1", "bs255", "restart", "script_call", "state_after_tail", "padded_one_shot"],
        r#gen,
        exec,
        components: "real code: cbc, pcbc, ige crates and the cipher crate's BlockMode* front ends; stub: block cipher (SimCipher toy permutation) in most runs, real AES-128/Magma/Kuznyechik in the rest; oracle: reference recurrences in sim/src/model.rs",
        assumptions: &["reference model and toy permutation are correct (self-tested at start-up)", "cipher/inout/hybrid-array crates are trusted", "sampling, not proof"],
        nondet_is_violation: false,
    }
}

const MODES: [&str; 6] = ["cbc.enc", "cbc.dec", "pcbc.enc", "pcbc.dec", "ige.enc", "ige.dec"];

fn r#gen(rng: &mut Rng, thorough: bool) -> Scn {
    let mode = *rng.pick(&MODES);
    let pool = 64 + rng.usize(400);
    let mut s = base_scn(rng, "C02", mode, true, 1, pool);
    let w = s.pol[0].max_width() as u64;
    let nops = 1 + rng.usize(if thorough { 12 } else { 8 });
    let maxb = if s.bs == 255 { 12 } else { 28 };
    for _ in 0..nops {
        match rng.below(10) {
            0 => s.ops.push(Op::new("restart")),
            1 => s.ops.push(Op::new("clone")),
            _ => s.ops.push(Op::new("blocks").n(rng.nblocks(maxb, w)).via(rng.below(N_VIA as u64) as u8).p(rng.next() as u128)),
        }
    }
    if mode.ends_with("enc") && rng.chance(1, 3) {
        let g = s.bs as u64;
        let n = if rng.chance(1, 6) { rng.nbytes_long(g) } else { rng.nbytes(6 * g, g) };
        s.ops.push(Op::new("padded").n(n).via(rng.below(3) as u8).ty(rng.below(5) as u8));
    }
    if mode.ends_with("dec") {
        s.set_num("honest", rng.below(3) as u128);
        s.set_num("flip", rng.below(4096) as u128);
    }
    s
}

fn model_run(scn: &Scn, input: &[u8]) -> (Vec<u8>, Vec<u8>) {
    with_prim(scn, |p| match scn.mode.as_str() {
        "cbc.enc" => model::cbc_enc(p, &scn.iv, input),
        "cbc.dec" => model::cbc_dec(p, &scn.iv, input),
        "pcbc.enc" => model::pcbc_enc(p, &scn.iv, input),
        "pcbc.dec" => model::pcbc_dec(p, &scn.iv, input),
        "ige.enc" => model::ige_enc(p, &scn.iv, input),
        _ => model::ige_dec(p, &scn.iv, input),
    })
}

fn exec(scn: &Scn, ctx: &mut Ctx) -> Verdict {
    if !MODES.contains(&scn.mode.as_str()) {
        invalid!("mode");
    }
    block_history(scn, ctx, &model_run, false)
}
