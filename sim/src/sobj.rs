//! Object layer, second half: byte-stream wrappers, stream cores, buffered CFB and the cts
//! one-shots behind object-safe traits.

use crate::obj::{as_blocks, as_blocks_mut, fmt_alg};
use crate::prng::Rng;
use crate::slot::Slot;
use cipher::{
    AlgorithmName, Block, BlockSizeUser, InOutBuf, ParBlocksSizeUser, StreamCipher,
    StreamCipherBackend, StreamCipherClosure, StreamCipherCore, StreamCipherCoreWrapper,
    StreamCipherSeek,
    array::Array,
    crypto_common::BlockSizes,
    typenum::Unsigned,
};

#[derive(Debug, Clone, Copy, PartialEq)]
pub enum SeekFail {
    /// the position does not fit the requested integer type: the call cannot even be written
    Unrepresentable,
    Err,
}

pub const SEEK_TYPES: [&str; 5] = ["u32", "u64", "u128", "usize", "i32"];
pub fn seek_type_max(ty: u8) -> u128 {
    match ty {
        0 => u32::MAX as u128,
        1 => u64::MAX as u128,
        2 => u128::MAX,
        3 => usize::MAX as u128,
        _ => i32::MAX as u128,
    }
}

pub fn w_seek<W: StreamCipherSeek>(w: &mut W, ty: u8, pos: u128) -> Result<(), SeekFail> {
    if pos > seek_type_max(ty) {
        return Err(SeekFail::Unrepresentable);
    }
    let r = match ty {
        0 => w.try_seek(pos as u32),
        1 => w.try_seek(pos as u64),
        2 => w.try_seek(pos),
        3 => w.try_seek(pos as usize),
        _ => w.try_seek(pos as i32),
    };
    r.map_err(|_| SeekFail::Err)
}
pub fn w_pos<W: StreamCipherSeek>(w: &W, ty: u8) -> Result<u128, ()> {
    match ty {
        0 => w.try_current_pos::<u32>().map(|v| v as u128).map_err(|_| ()),
        1 => w.try_current_pos::<u64>().map(|v| v as u128).map_err(|_| ()),
        2 => w.try_current_pos::<u128>().map_err(|_| ()),
        3 => w.try_current_pos::<usize>().map(|v| v as u128).map_err(|_| ()),
        _ => w
            .try_current_pos::<i32>()
            .map_err(|_| ())
            .and_then(|v| if v >= 0 { Ok(v as u128) } else { Err(()) }),
    }
}

/// what a stream core can do beyond `StreamCipherCore`; implemented per core family in factory.rs
pub trait CoreCaps: StreamCipherCore + Sized + 'static {
    fn c_seekable() -> bool {
        false
    }
    fn c_get_pos(&self) -> Option<u128> {
        None
    }
    /// None: not seekable; Some(false): position not representable in the core's counter type
    fn c_set_pos(&mut self, _p: u128) -> Option<bool> {
        None
    }
    fn c_export(&self) -> Option<Vec<u8>> {
        None
    }
    fn c_clone(&self) -> Option<Self> {
        None
    }
    fn c_debug(&self) -> String;
    fn c_alg() -> String;
    fn w_seek(_w: &mut StreamCipherCoreWrapper<Self>, _ty: u8, _pos: u128) -> Result<(), SeekFail> {
        panic!("harness: not seekable")
    }
    fn w_pos(_w: &StreamCipherCoreWrapper<Self>, _ty: u8) -> Result<u128, ()> {
        panic!("harness: not seekable")
    }
    fn w_debug(w: &StreamCipherCoreWrapper<Self>) -> String;
    fn w_clone(_w: &StreamCipherCoreWrapper<Self>) -> Option<StreamCipherCoreWrapper<Self>> {
        None
    }
    fn c_clone_from(&mut self, _src: &Self) -> bool {
        false
    }
    fn w_clone_from(_dst: &mut StreamCipherCoreWrapper<Self>, _src: &StreamCipherCoreWrapper<Self>) -> bool {
        false
    }
}

pub trait StreamObj {
    fn bs(&self) -> usize;
    fn seekable(&self) -> bool;
    /// forms: 0 try_apply_keystream (in place), 1 try_apply_keystream_inout (separate buffers),
    /// 2 apply_keystream_b2b, 3 apply_keystream (in place; panics on error), 4 apply_keystream_inout
    /// (separate; panics on error), 5 try_apply_keystream_inout over one buffer
    fn apply(&mut self, form: u8, inp: &[u8], out: &mut [u8]) -> Result<(), ()>;
    /// apply_keystream_b2b with explicit, possibly unequal lengths
    fn apply_b2b_raw(&mut self, inp: &[u8], out: &mut [u8]) -> Result<(), ()>;
    fn seek(&mut self, ty: u8, pos: u128) -> Result<(), SeekFail>;
    fn pos(&self, ty: u8) -> Result<u128, ()>;
    fn remaining_blocks(&self) -> Option<usize>;
    fn core_export(&self) -> Option<Vec<u8>>;
    fn block_pos(&self) -> Option<u128>;
    fn dup(&self) -> Option<Box<dyn StreamObj>>;
    fn debug(&self) -> String;
    fn core_debug(&self) -> String;
    fn alg(&self) -> String;
    fn drop_scan(self: Box<Self>) -> Vec<u8>;
    fn peek(&self) -> Vec<u8>;
    fn as_any(&self) -> &dyn core::any::Any;
    fn assign_from(&mut self, src: &dyn core::any::Any) -> bool;
}

pub const N_APPLY_FORMS: u8 = 6;
pub fn apply_form_in_place(form: u8) -> bool {
    matches!(form, 0 | 3 | 5)
}
pub fn apply_form_panics(form: u8) -> bool {
    matches!(form, 3 | 4)
}

pub struct StrO<T: CoreCaps>(pub Slot<StreamCipherCoreWrapper<T>>);

impl<T: CoreCaps> StreamObj for StrO<T> {
    fn bs(&self) -> usize {
        T::BlockSize::USIZE
    }
    fn seekable(&self) -> bool {
        T::c_seekable()
    }
    fn apply(&mut self, form: u8, inp: &[u8], out: &mut [u8]) -> Result<(), ()> {
        assert_eq!(inp.len(), out.len());
        let w: &mut StreamCipherCoreWrapper<T> = &mut self.0;
        if apply_form_in_place(form) {
            out.copy_from_slice(inp);
        }
        match form {
            0 => w.try_apply_keystream(out).map_err(|_| ()),
            1 => w
                .try_apply_keystream_inout(InOutBuf::new(inp, out).unwrap())
                .map_err(|_| ()),
            2 => w.apply_keystream_b2b(inp, out).map_err(|_| ()),
            3 => {
                w.apply_keystream(out);
                Ok(())
            }
            4 => {
                w.apply_keystream_inout(InOutBuf::new(inp, out).unwrap());
                Ok(())
            }
            5 => w.try_apply_keystream_inout(out.into()).map_err(|_| ()),
            _ => panic!("harness: apply form"),
        }
    }
    fn apply_b2b_raw(&mut self, inp: &[u8], out: &mut [u8]) -> Result<(), ()> {
        self.0.apply_keystream_b2b(inp, out).map_err(|_| ())
    }
    fn seek(&mut self, ty: u8, pos: u128) -> Result<(), SeekFail> {
        T::w_seek(&mut self.0, ty, pos)
    }
    fn pos(&self, ty: u8) -> Result<u128, ()> {
        T::w_pos(&self.0, ty)
    }
    fn remaining_blocks(&self) -> Option<usize> {
        self.0.get_core().remaining_blocks()
    }
    fn core_export(&self) -> Option<Vec<u8>> {
        self.0.get_core().c_export()
    }
    fn block_pos(&self) -> Option<u128> {
        self.0.get_core().c_get_pos()
    }
    fn dup(&self) -> Option<Box<dyn StreamObj>> {
        T::w_clone(&self.0).map(|w| Box::new(StrO(Slot::new(w))) as Box<dyn StreamObj>)
    }
    fn debug(&self) -> String {
        T::w_debug(&self.0)
    }
    fn core_debug(&self) -> String {
        self.0.get_core().c_debug()
    }
    fn alg(&self) -> String {
        T::c_alg()
    }
    fn drop_scan(self: Box<Self>) -> Vec<u8> {
        self.0.drop_scan()
    }
    fn peek(&self) -> Vec<u8> {
        self.0.peek()
    }
    fn as_any(&self) -> &dyn core::any::Any {
        self
    }
    fn assign_from(&mut self, src: &dyn core::any::Any) -> bool {
        match src.downcast_ref::<StrO<T>>() {
            Some(s) => T::w_clone_from(&mut self.0, &s.0),
            None => false,
        }
    }
}

// ---------------------------------------------------------------------------------------------
// cores

pub struct KsScript<'a, BS: BlockSizes> {
    pub blocks: &'a mut [Array<u8, BS>],
    pub seed: u64,
}
impl<BS: BlockSizes> BlockSizeUser for KsScript<'_, BS> {
    type BlockSize = BS;
}
impl<BS: BlockSizes> StreamCipherClosure for KsScript<'_, BS> {
    fn call<B: StreamCipherBackend<BlockSize = BS>>(self, backend: &mut B) {
        let w = <B as ParBlocksSizeUser>::ParBlocksSize::USIZE;
        let mut rng = Rng::new(self.seed);
        let mut rest = self.blocks;
        while !rest.is_empty() {
            let n = rest.len();
            let c = rng.below(3);
            if c == 1 && w > 1 && n >= w {
                let (head, tail) = rest.split_at_mut(w);
                let (chunks, _) = Array::<Array<u8, BS>, B::ParBlocksSize>::slice_as_chunks_mut(head);
                for ch in chunks {
                    backend.gen_par_ks_blocks(ch);
                }
                rest = tail;
            } else if c == 2 && w > 1 {
                let k = 1 + rng.usize(n.min(w - 1));
                let (head, tail) = rest.split_at_mut(k);
                backend.gen_tail_blocks(head);
                rest = tail;
            } else {
                let (head, tail) = rest.split_at_mut(1);
                backend.gen_ks_block(&mut head[0]);
                rest = tail;
            }
        }
    }
}

pub const N_KS_VIA: u8 = 8;
pub fn ks_via_in_place(via: u8) -> bool {
    matches!(via, 2 | 4 | 6)
}

pub trait CoreObj {
    fn bs(&self) -> usize;
    fn seekable(&self) -> bool;
    /// whole blocks; via: 0 write_keystream_block (harness XORs), 1 write_keystream_blocks (harness
    /// XORs), 2 apply_keystream_block_inout in place, 3 same with separate buffers,
    /// 4 apply_keystream_blocks (in place), 5 apply_keystream_blocks_inout separate buffers,
    /// 6 driver script over process_with_backend (harness XORs), 7 apply_keystream_blocks_inout
    /// over one buffer
    fn ks(&mut self, via: u8, seed: u64, inp: &[u8], out: &mut [u8]);
    fn get_pos(&self) -> Option<u128>;
    fn set_pos(&mut self, p: u128) -> Option<bool>;
    fn remaining_blocks(&self) -> Option<usize>;
    fn export(&self) -> Option<Vec<u8>>;
    fn dup(&self) -> Option<Box<dyn CoreObj>>;
    fn debug(&self) -> String;
    fn alg(&self) -> String;
    fn into_stream(self: Box<Self>) -> Box<dyn StreamObj>;
    /// StreamCipherCore::try_apply_keystream_partial (consumes the core); separate buffers if
    /// `b2b`.  Only used far from the keystream limit.
    fn partial(self: Box<Self>, b2b: bool, inp: &[u8], out: &mut [u8]) -> Result<(), ()>;
    fn drop_scan(self: Box<Self>) -> Vec<u8>;
    fn peek(&self) -> Vec<u8>;
    fn as_any(&self) -> &dyn core::any::Any;
    fn assign_from(&mut self, src: &dyn core::any::Any) -> bool;
}

pub struct CoreO<T: CoreCaps>(pub Slot<T>);

impl<T: CoreCaps> CoreObj for CoreO<T> {
    fn bs(&self) -> usize {
        T::BlockSize::USIZE
    }
    fn seekable(&self) -> bool {
        T::c_seekable()
    }
    fn ks(&mut self, via: u8, seed: u64, inp: &[u8], out: &mut [u8]) {
        assert_eq!(inp.len(), out.len());
        let c: &mut T = &mut self.0;
        let xor_in = |out: &mut [u8]| {
            for (o, i) in out.iter_mut().zip(inp) {
                *o ^= *i;
            }
        };
        match via {
            0 => {
                for b in as_blocks_mut::<T::BlockSize>(out) {
                    c.write_keystream_block(b);
                }
                xor_in(out);
            }
            1 => {
                c.write_keystream_blocks(as_blocks_mut::<T::BlockSize>(out));
                xor_in(out);
            }
            2 => {
                out.copy_from_slice(inp);
                for b in as_blocks_mut::<T::BlockSize>(out) {
                    c.apply_keystream_block_inout(b.into());
                }
            }
            3 => {
                let i = as_blocks::<T::BlockSize>(inp);
                let o = as_blocks_mut::<T::BlockSize>(out);
                for (a, b) in i.iter().zip(o.iter_mut()) {
                    c.apply_keystream_block_inout((a, b).into());
                }
            }
            4 => {
                out.copy_from_slice(inp);
                c.apply_keystream_blocks(as_blocks_mut::<T::BlockSize>(out));
            }
            5 => {
                let io = InOutBuf::new(as_blocks::<T::BlockSize>(inp), as_blocks_mut::<T::BlockSize>(out)).unwrap();
                c.apply_keystream_blocks_inout(io);
            }
            6 => {
                c.process_with_backend(KsScript {
                    blocks: as_blocks_mut::<T::BlockSize>(out),
                    seed,
                });
                xor_in(out);
            }
            7 => {
                out.copy_from_slice(inp);
                c.apply_keystream_blocks_inout(as_blocks_mut::<T::BlockSize>(out).into());
            }
            _ => panic!("harness: ks via"),
        }
    }
    fn get_pos(&self) -> Option<u128> {
        self.0.c_get_pos()
    }
    fn set_pos(&mut self, p: u128) -> Option<bool> {
        self.0.c_set_pos(p)
    }
    fn remaining_blocks(&self) -> Option<usize> {
        self.0.remaining_blocks()
    }
    fn export(&self) -> Option<Vec<u8>> {
        self.0.c_export()
    }
    fn dup(&self) -> Option<Box<dyn CoreObj>> {
        self.0.c_clone().map(|c| Box::new(CoreO(Slot::new(c))) as Box<dyn CoreObj>)
    }
    fn debug(&self) -> String {
        self.0.c_debug()
    }
    fn alg(&self) -> String {
        T::c_alg()
    }
    fn into_stream(self: Box<Self>) -> Box<dyn StreamObj> {
        let c = self.0.take();
        Box::new(StrO(Slot::new(StreamCipherCoreWrapper::from_core(c))))
    }
    fn partial(self: Box<Self>, b2b: bool, inp: &[u8], out: &mut [u8]) -> Result<(), ()> {
        let c = self.0.take();
        if b2b {
            c.try_apply_keystream_partial(InOutBuf::new(inp, out).map_err(|_| ())?).map_err(|_| ())
        } else {
            out.copy_from_slice(inp);
            c.try_apply_keystream_partial(out.into()).map_err(|_| ())
        }
    }
    fn drop_scan(self: Box<Self>) -> Vec<u8> {
        self.0.drop_scan()
    }
    fn peek(&self) -> Vec<u8> {
        self.0.peek()
    }
    fn as_any(&self) -> &dyn core::any::Any {
        self
    }
    fn assign_from(&mut self, src: &dyn core::any::Any) -> bool {
        match src.downcast_ref::<CoreO<T>>() {
            Some(s) => self.0.c_clone_from(&s.0),
            None => false,
        }
    }
}

// ---------------------------------------------------------------------------------------------
// buffered CFB

pub trait BufObj {
    fn bs(&self) -> usize;
    fn is_enc(&self) -> bool;
    fn proc(&mut self, data: &mut [u8]);
    fn state(&self) -> (Vec<u8>, usize);
    fn dup(&self) -> Box<dyn BufObj>;
    fn debug(&self) -> String;
    fn alg(&self) -> String;
    fn drop_scan(self: Box<Self>) -> Vec<u8>;
    fn peek(&self) -> Vec<u8>;
    fn as_any(&self) -> &dyn core::any::Any;
    fn assign_from(&mut self, src: &dyn core::any::Any) -> bool;
}

pub struct BufEncO<C: cipher::BlockCipherEncrypt>(pub Slot<cfb_mode::BufEncryptor<C>>);
pub struct BufDecO<C: cipher::BlockCipherEncrypt>(pub Slot<cfb_mode::BufDecryptor<C>>);

impl<C: cipher::BlockCipherEncrypt + Clone + AlgorithmName + 'static> BufObj for BufEncO<C> {
    fn bs(&self) -> usize {
        C::BlockSize::USIZE
    }
    fn is_enc(&self) -> bool {
        true
    }
    fn proc(&mut self, data: &mut [u8]) {
        self.0.encrypt(data)
    }
    fn state(&self) -> (Vec<u8>, usize) {
        let (b, p) = self.0.get_state();
        (b.to_vec(), p)
    }
    fn dup(&self) -> Box<dyn BufObj> {
        Box::new(BufEncO(Slot::new((*self.0).clone())))
    }
    fn debug(&self) -> String {
        format!("{:?}\n{:#?}", &*self.0, &*self.0)
    }
    fn alg(&self) -> String {
        fmt_alg::<cfb_mode::BufEncryptor<C>>()
    }
    fn drop_scan(self: Box<Self>) -> Vec<u8> {
        self.0.drop_scan()
    }
    fn peek(&self) -> Vec<u8> {
        self.0.peek()
    }
    fn as_any(&self) -> &dyn core::any::Any {
        self
    }
    fn assign_from(&mut self, src: &dyn core::any::Any) -> bool {
        match src.downcast_ref::<BufEncO<C>>() {
            Some(s) => {
                (*self.0).clone_from(&*s.0);
                true
            }
            None => false,
        }
    }
}
impl<C: cipher::BlockCipherEncrypt + Clone + AlgorithmName + 'static> BufObj for BufDecO<C> {
    fn bs(&self) -> usize {
        C::BlockSize::USIZE
    }
    fn is_enc(&self) -> bool {
        false
    }
    fn proc(&mut self, data: &mut [u8]) {
        self.0.decrypt(data)
    }
    fn state(&self) -> (Vec<u8>, usize) {
        let (b, p) = self.0.get_state();
        (b.to_vec(), p)
    }
    fn dup(&self) -> Box<dyn BufObj> {
        Box::new(BufDecO(Slot::new((*self.0).clone())))
    }
    fn debug(&self) -> String {
        format!("{:?}\n{:#?}", &*self.0, &*self.0)
    }
    fn alg(&self) -> String {
        fmt_alg::<cfb_mode::BufDecryptor<C>>()
    }
    fn drop_scan(self: Box<Self>) -> Vec<u8> {
        self.0.drop_scan()
    }
    fn peek(&self) -> Vec<u8> {
        self.0.peek()
    }
    fn as_any(&self) -> &dyn core::any::Any {
        self
    }
    fn assign_from(&mut self, src: &dyn core::any::Any) -> bool {
        match src.downcast_ref::<BufDecO<C>>() {
            Some(s) => {
                (*self.0).clone_from(&*s.0);
                true
            }
            None => false,
        }
    }
}

// ---------------------------------------------------------------------------------------------
// cts one-shots

pub const N_CTS_FORMS: u8 = 4;
pub fn cts_form_in_place(form: u8) -> bool {
    matches!(form, 0 | 3)
}

/// forms: 0 encrypt/decrypt (in place), 1 *_b2b, 2 *_inout with separate buffers, 3 *_inout over
/// one buffer.  `inp` and `out` may differ in length only for form 1.
pub fn cts_enc<M: cts::Encrypt>(m: M, form: u8, inp: &[u8], out: &mut [u8]) -> Result<(), ()> {
    match form {
        0 => {
            out.copy_from_slice(inp);
            m.encrypt(out).map_err(|_| ())
        }
        1 => m.encrypt_b2b(inp, out).map_err(|_| ()),
        2 => m.encrypt_inout(InOutBuf::new(inp, out).map_err(|_| ())?).map_err(|_| ()),
        _ => {
            out.copy_from_slice(inp);
            m.encrypt_inout(out.into()).map_err(|_| ())
        }
    }
}
pub fn cts_dec<M: cts::Decrypt>(m: M, form: u8, inp: &[u8], out: &mut [u8]) -> Result<(), ()> {
    match form {
        0 => {
            out.copy_from_slice(inp);
            m.decrypt(out).map_err(|_| ())
        }
        1 => m.decrypt_b2b(inp, out).map_err(|_| ()),
        2 => m.decrypt_inout(InOutBuf::new(inp, out).map_err(|_| ())?).map_err(|_| ()),
        _ => {
            out.copy_from_slice(inp);
            m.decrypt_inout(out.into()).map_err(|_| ())
        }
    }
}

#[allow(unused)]
fn _b<M: BlockSizeUser>() -> usize {
    core::mem::size_of::<Block<M>>()
}
