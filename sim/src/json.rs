//! Minimal JSON value, writer and parser (hand-written so that nothing outside the crate can
//! perturb determinism and no extra dependency has to be resolved offline).
//! Integers are kept as u128 / i128 so that 128-bit stream positions survive a round trip.

#[derive(Clone, Debug, PartialEq)]
pub enum J {
    Null,
    Bool(bool),
    U(u128),
    I(i128),
    F(f64),
    S(String),
    A(Vec<J>),
    O(Vec<(String, J)>),
}

impl J {
    pub fn obj() -> J {
        J::O(Vec::new())
    }
    pub fn set(&mut self, k: &str, v: J) -> &mut J {
        if let J::O(m) = self {
            if let Some(e) = m.iter_mut().find(|(kk, _)| kk == k) {
                e.1 = v;
            } else {
                m.push((k.to_string(), v));
            }
        }
        self
    }
    pub fn with(mut self, k: &str, v: J) -> J {
        self.set(k, v);
        self
    }
    pub fn get(&self, k: &str) -> Option<&J> {
        match self {
            J::O(m) => m.iter().find(|(kk, _)| kk == k).map(|e| &e.1),
            _ => None,
        }
    }
    pub fn str(&self) -> Option<&str> {
        match self {
            J::S(s) => Some(s),
            _ => None,
        }
    }
    pub fn u128(&self) -> Option<u128> {
        match self {
            J::U(u) => Some(*u),
            J::I(i) if *i >= 0 => Some(*i as u128),
            _ => None,
        }
    }
    pub fn u64(&self) -> Option<u64> {
        self.u128().and_then(|v| u64::try_from(v).ok())
    }
    pub fn arr(&self) -> Option<&Vec<J>> {
        match self {
            J::A(a) => Some(a),
            _ => None,
        }
    }
    pub fn s(x: &str) -> J {
        J::S(x.to_string())
    }
    pub fn hex(b: &[u8]) -> J {
        J::S(hex(b))
    }

    pub fn write(&self, out: &mut String, ind: usize, pretty: bool) {
        let nl = |out: &mut String, ind: usize| {
            if pretty {
                out.push('\n');
                for _ in 0..ind {
                    out.push(' ');
                }
            }
        };
        match self {
            J::Null => out.push_str("null"),
            J::Bool(b) => out.push_str(if *b { "true" } else { "false" }),
            J::U(u) => out.push_str(&u.to_string()),
            J::I(i) => out.push_str(&i.to_string()),
            J::F(f) => {
                if f.is_finite() {
                    let s = format!("{:.6}", f);
                    out.push_str(&s);
                } else {
                    out.push_str("0.0")
                }
            }
            J::S(s) => {
                out.push('"');
                for c in s.chars() {
                    match c {
                        '"' => out.push_str("\\\""),
                        '\\' => out.push_str("\\\\"),
                        '\n' => out.push_str("\\n"),
                        '\r' => out.push_str("\\r"),
                        '\t' => out.push_str("\\t"),
                        c if (c as u32) < 0x20 => out.push_str(&format!("\\u{:04x}", c as u32)),
                        c => out.push(c),
                    }
                }
                out.push('"');
            }
            J::A(a) => {
                if a.is_empty() {
                    out.push_str("[]");
                    return;
                }
                // arrays of scalars stay on one line
                let scalar = a.iter().all(|x| !matches!(x, J::A(_) | J::O(_)));
                out.push('[');
                for (i, x) in a.iter().enumerate() {
                    if i > 0 {
                        out.push(',');
                        if scalar && pretty {
                            out.push(' ');
                        }
                    }
                    if !scalar {
                        nl(out, ind + 1);
                    }
                    x.write(out, ind + 1, pretty);
                }
                if !scalar {
                    nl(out, ind);
                }
                out.push(']');
            }
            J::O(m) => {
                if m.is_empty() {
                    out.push_str("{}");
                    return;
                }
                out.push('{');
                for (i, (k, v)) in m.iter().enumerate() {
                    if i > 0 {
                        out.push(',');
                    }
                    nl(out, ind + 1);
                    J::S(k.clone()).write(out, 0, false);
                    out.push(':');
                    if pretty {
                        out.push(' ');
                    }
                    v.write(out, ind + 1, pretty);
                }
                nl(out, ind);
                out.push('}');
            }
        }
    }
    pub fn pretty(&self) -> String {
        let mut s = String::new();
        self.write(&mut s, 0, true);
        s.push('\n');
        s
    }
    pub fn compact(&self) -> String {
        let mut s = String::new();
        self.write(&mut s, 0, false);
        s
    }

    pub fn parse(src: &str) -> Result<J, String> {
        let b = src.as_bytes();
        let mut p = 0usize;
        let v = parse_val(b, &mut p)?;
        skip_ws(b, &mut p);
        if p != b.len() {
            return Err(format!("trailing data at {}", p));
        }
        Ok(v)
    }
}

fn skip_ws(b: &[u8], p: &mut usize) {
    while *p < b.len() && matches!(b[*p], b' ' | b'\n' | b'\r' | b'\t') {
        *p += 1;
    }
}

fn parse_val(b: &[u8], p: &mut usize) -> Result<J, String> {
    skip_ws(b, p);
    if *p >= b.len() {
        return Err("eof".into());
    }
    match b[*p] {
        b'n' if b[*p..].starts_with(b"null") => {
            *p += 4;
            Ok(J::Null)
        }
        b't' if b[*p..].starts_with(b"true") => {
            *p += 4;
            Ok(J::Bool(true))
        }
        b'f' if b[*p..].starts_with(b"false") => {
            *p += 5;
            Ok(J::Bool(false))
        }
        b'"' => Ok(J::S(parse_str(b, p)?)),
        b'[' => {
            *p += 1;
            let mut a = Vec::new();
            skip_ws(b, p);
            if *p < b.len() && b[*p] == b']' {
                *p += 1;
                return Ok(J::A(a));
            }
            loop {
                a.push(parse_val(b, p)?);
                skip_ws(b, p);
                match b.get(*p) {
                    Some(b',') => *p += 1,
                    Some(b']') => {
                        *p += 1;
                        return Ok(J::A(a));
                    }
                    _ => return Err(format!("bad array at {}", p)),
                }
            }
        }
        b'{' => {
            *p += 1;
            let mut m = Vec::new();
            skip_ws(b, p);
            if *p < b.len() && b[*p] == b'}' {
                *p += 1;
                return Ok(J::O(m));
            }
            loop {
                skip_ws(b, p);
                let k = parse_str(b, p)?;
                skip_ws(b, p);
                if b.get(*p) != Some(&b':') {
                    return Err(format!("expected : at {}", p));
                }
                *p += 1;
                let v = parse_val(b, p)?;
                m.push((k, v));
                skip_ws(b, p);
                match b.get(*p) {
                    Some(b',') => *p += 1,
                    Some(b'}') => {
                        *p += 1;
                        return Ok(J::O(m));
                    }
                    _ => return Err(format!("bad object at {}", p)),
                }
            }
        }
        _ => {
            let st = *p;
            while *p < b.len() && matches!(b[*p], b'-' | b'+' | b'.' | b'e' | b'E' | b'0'..=b'9') {
                *p += 1;
            }
            let t = std::str::from_utf8(&b[st..*p]).map_err(|e| e.to_string())?;
            if t.is_empty() {
                return Err(format!("unexpected byte at {}", st));
            }
            if let Ok(u) = t.parse::<u128>() {
                Ok(J::U(u))
            } else if let Ok(i) = t.parse::<i128>() {
                Ok(J::I(i))
            } else {
                t.parse::<f64>().map(J::F).map_err(|e| e.to_string())
            }
        }
    }
}

fn parse_str(b: &[u8], p: &mut usize) -> Result<String, String> {
    if b.get(*p) != Some(&b'"') {
        return Err(format!("expected string at {}", p));
    }
    *p += 1;
    let mut out: Vec<u8> = Vec::new();
    while *p < b.len() {
        match b[*p] {
            b'"' => {
                *p += 1;
                return String::from_utf8(out).map_err(|e| e.to_string());
            }
            b'\\' => {
                *p += 1;
                match b.get(*p) {
                    Some(b'n') => out.push(b'\n'),
                    Some(b'r') => out.push(b'\r'),
                    Some(b't') => out.push(b'\t'),
                    Some(b'"') => out.push(b'"'),
                    Some(b'\\') => out.push(b'\\'),
                    Some(b'/') => out.push(b'/'),
                    Some(b'u') => {
                        let h = std::str::from_utf8(&b[*p + 1..*p + 5]).map_err(|e| e.to_string())?;
                        let c = u32::from_str_radix(h, 16).map_err(|e| e.to_string())?;
                        let ch = char::from_u32(c).unwrap_or('?');
                        let mut tmp = [0u8; 4];
                        out.extend_from_slice(ch.encode_utf8(&mut tmp).as_bytes());
                        *p += 4;
                    }
                    _ => return Err("bad escape".into()),
                }
                *p += 1;
            }
            c => {
                out.push(c);
                *p += 1;
            }
        }
    }
    Err("unterminated string".into())
}

pub fn hex(b: &[u8]) -> String {
    let mut s = String::with_capacity(b.len() * 2);
    for x in b {
        s.push_str(&format!("{:02x}", x));
    }
    s
}

pub fn unhex(s: &str) -> Option<Vec<u8>> {
    if s.len() % 2 != 0 {
        return None;
    }
    (0..s.len() / 2)
        .map(|i| u8::from_str_radix(&s[2 * i..2 * i + 2], 16).ok())
        .collect()
}
