//! Factories: (mode name, block size, cipher kind) -> boxed object.  Everything here is
//! monomorphisation plumbing; a combination that is not compiled yields `MkErr::Unsupported`
//! (the scenario is invalid, never a violation).

use crate::obj::*;
use crate::simcipher::{SimCipher, SimCipherEnc, Traced};
use crate::slot::Slot;
use crate::sobj::*;
use aes::Aes128;
use belt_block::BeltBlock;
use cipher::{
    AlgorithmName, BlockCipherDecrypt, BlockCipherEncrypt, BlockModeDecrypt, BlockModeEncrypt,
    BlockSizeUser, InnerIvInit, IvState, KeyInit, KeyIvInit, StreamCipherCoreWrapper,
    StreamCipherSeekCore,
    array::{Array, ArraySize},
    consts::*,
    crypto_common::{BlockSizes, InnerInit},
    typenum::{Sum, Unsigned},
};
use core::fmt::Debug;
use core::ops::Add;
use kuznyechik::Kuznyechik;
use magma::Magma;

#[derive(Clone, Copy, PartialEq, Eq, Debug)]
pub enum CK {
    Sim,
    SimEnc,
    Aes128,
    Magma,
    Kuz,
    Belt,
}
impl CK {
    pub fn name(self) -> &'static str {
        match self {
            CK::Sim => "sim",
            CK::SimEnc => "simenc",
            CK::Aes128 => "aes128",
            CK::Magma => "magma",
            CK::Kuz => "kuznyechik",
            CK::Belt => "belt",
        }
    }
    pub fn parse(s: &str) -> Option<CK> {
        [CK::Sim, CK::SimEnc, CK::Aes128, CK::Magma, CK::Kuz, CK::Belt]
            .into_iter()
            .find(|c| c.name() == s)
    }
    pub fn key_len(self) -> usize {
        match self {
            CK::Sim | CK::SimEnc => 8,
            CK::Aes128 => 16,
            CK::Magma | CK::Kuz | CK::Belt => 32,
        }
    }
    pub fn real_bs(self) -> Option<usize> {
        match self {
            CK::Sim | CK::SimEnc => None,
            CK::Magma => Some(8),
            _ => Some(16),
        }
    }
    pub fn has_dec(self) -> bool {
        self != CK::SimEnc
    }
}

#[derive(Debug, Clone, Copy, PartialEq)]
pub enum MkErr {
    Unsupported,
    Rejected,
}

pub const GENERAL_BS: [usize; 7] = [1, 2, 3, 8, 16, 17, 255];
pub const CTR32_BS: [usize; 5] = [4, 8, 12, 16, 252];
pub const CTR64_BS: [usize; 4] = [8, 16, 24, 248];
pub const CTR128_BS: [usize; 3] = [16, 32, 240];

pub const BLOCK_MODES: [&str; 12] = [
    "cbc.enc", "cbc.dec", "pcbc.enc", "pcbc.dec", "ige.enc", "ige.dec", "cfb.enc", "cfb.dec",
    "cfb8.enc", "cfb8.dec", "ofb.enc", "ofb.dec",
];
pub const STREAM_MODES: [&str; 8] = [
    "ctr32be", "ctr32le", "ctr64be", "ctr64le", "ctr128be", "ctr128le", "ofb", "belt",
];
pub const BUF_MODES: [&str; 2] = ["cfb.bufenc", "cfb.bufdec"];
pub const CTS_MODES: [&str; 6] = ["cbc-cs1", "cbc-cs2", "cbc-cs3", "ecb-cs1", "ecb-cs2", "ecb-cs3"];

/// block sizes compiled for a mode over the toy cipher
pub fn sizes_for(mode: &str) -> &'static [usize] {
    match mode {
        "ctr32be" | "ctr32le" => &CTR32_BS,
        "ctr64be" | "ctr64le" => &CTR64_BS,
        "ctr128be" | "ctr128le" => &CTR128_BS,
        "belt" => &[16],
        _ => &GENERAL_BS,
    }
}
/// does the mode use only the encrypt direction (so that it must build over SimCipherEnc)?
pub fn enc_only_mode(mode: &str) -> bool {
    mode.starts_with("cfb") || mode.starts_with("ofb") || mode.starts_with("ctr") || mode == "belt"
}
pub fn iv_len(mode: &str, bs: usize) -> usize {
    if mode.starts_with("ige") {
        2 * bs
    } else if mode.starts_with("ecb") {
        0
    } else {
        bs
    }
}
/// cipher kinds usable with (mode, bs)
pub fn ciphers_for(mode: &str, bs: usize) -> Vec<CK> {
    let mut v = Vec::new();
    if sizes_for(mode).contains(&bs) {
        v.push(CK::Sim);
        if enc_only_mode(mode) {
            v.push(CK::SimEnc);
        }
    }
    if mode == "belt" {
        v.push(CK::Belt);
        return v;
    }
    if bs == 16 {
        v.push(CK::Aes128);
        if mode.starts_with("ctr") || mode.starts_with("cbc") {
            v.push(CK::Kuz);
        }
        if mode.starts_with("cfb.") || mode.ends_with("cs1") || mode.ends_with("cs3") {
            v.push(CK::Belt);
        }
    }
    if bs == 8 && (mode.starts_with("ctr32") || mode.starts_with("ctr64") || mode.starts_with("cbc.") || mode.starts_with("cfb8") || mode == "ofb") {
        v.push(CK::Magma);
    }
    v
}

// ---------------------------------------------------------------------------------------------
// capabilities

macro_rules! caps_export {
    ($($t:ident)::+ ; $($bound:tt)*) => {
        impl<C> Caps for $($t)::+<C> where C: $($bound)* {
            fn cap_export(&self) -> Option<Vec<u8>> { Some(self.iv_state().to_vec()) }
        }
    };
}
caps_export!(cbc::Encryptor; BlockCipherEncrypt);
caps_export!(cbc::Decryptor; BlockCipherDecrypt);
caps_export!(pcbc::Encryptor; BlockCipherEncrypt);
caps_export!(pcbc::Decryptor; BlockCipherDecrypt);
caps_export!(ofb::OfbCore; BlockCipherEncrypt);

impl<C> Caps for ige::Encryptor<C>
where
    C: BlockCipherEncrypt,
    C::BlockSize: Add,
    Sum<C::BlockSize, C::BlockSize>: ArraySize,
{
    fn cap_export(&self) -> Option<Vec<u8>> {
        Some(self.iv_state().to_vec())
    }
}
impl<C> Caps for ige::Decryptor<C>
where
    C: BlockCipherDecrypt,
    C::BlockSize: Add,
    Sum<C::BlockSize, C::BlockSize>: ArraySize,
{
    fn cap_export(&self) -> Option<Vec<u8>> {
        Some(self.iv_state().to_vec())
    }
}
impl<C: BlockCipherEncrypt> Caps for cfb8::Encryptor<C> {
    fn cap_export(&self) -> Option<Vec<u8>> {
        Some(self.iv_state().to_vec())
    }
    fn cap_async(&self) -> bool {
        true
    }
    fn cap_async_enc(self, kind: u8, inp: &[u8], out: &mut [u8]) -> Result<usize, ()> {
        async_enc(self, kind, inp, out)
    }
}
impl<C: BlockCipherEncrypt> Caps for cfb8::Decryptor<C> {
    fn cap_export(&self) -> Option<Vec<u8>> {
        Some(self.iv_state().to_vec())
    }
    fn cap_async(&self) -> bool {
        true
    }
    fn cap_async_dec(self, kind: u8, inp: &[u8], out: &mut [u8]) -> Result<usize, ()> {
        async_dec(self, kind, inp, out)
    }
}

macro_rules! caps_cfb {
    ([$($g:tt)*] $C:ty, $exp:expr) => {
        impl<$($g)*> Caps for cfb_mode::Encryptor<$C> {
            fn cap_export(&self) -> Option<Vec<u8>> { let f: fn(&Self) -> Option<Vec<u8>> = $exp; f(self) }
            fn cap_async(&self) -> bool { true }
            fn cap_async_enc(self, kind: u8, inp: &[u8], out: &mut [u8]) -> Result<usize, ()> { async_enc(self, kind, inp, out) }
        }
        impl<$($g)*> Caps for cfb_mode::Decryptor<$C> {
            fn cap_export(&self) -> Option<Vec<u8>> { let f: fn(&Self) -> Option<Vec<u8>> = $exp; f(self) }
            fn cap_async(&self) -> bool { true }
            fn cap_async_dec(self, kind: u8, inp: &[u8], out: &mut [u8]) -> Result<usize, ()> { async_dec(self, kind, inp, out) }
        }
    };
}
caps_cfb!([BS: BlockSizes] SimCipher<BS>, |s| Some(s.iv_state().to_vec()));
caps_cfb!([BS: BlockSizes] SimCipherEnc<BS>, |_| None);
caps_cfb!([C: BlockCipherEncrypt + BlockCipherDecrypt] Traced<C>, |s| Some(s.iv_state().to_vec()));

// stream cores
impl<C, F> CoreCaps for ctr::CtrCore<C, F>
where
    C: BlockCipherEncrypt + Clone + AlgorithmName + 'static,
    F: ctr::CtrFlavor<C::BlockSize> + 'static,
    <F as ctr::CtrFlavor<C::BlockSize>>::Backend: Copy,
    ctr::CtrCore<C, F>: Debug,
{
    fn c_seekable() -> bool {
        true
    }
    fn c_get_pos(&self) -> Option<u128> {
        self.get_block_pos().try_into().ok()
    }
    fn c_set_pos(&mut self, p: u128) -> Option<bool> {
        match <Self as StreamCipherSeekCore>::Counter::try_from(p) {
            Ok(v) => {
                self.set_block_pos(v);
                Some(true)
            }
            Err(_) => Some(false),
        }
    }
    fn c_export(&self) -> Option<Vec<u8>> {
        Some(self.iv_state().to_vec())
    }
    fn c_clone(&self) -> Option<Self> {
        Some(self.clone())
    }
    fn c_debug(&self) -> String {
        format!("{:?}\n{:#?}", self, self)
    }
    fn c_alg() -> String {
        fmt_alg::<Self>()
    }
    fn w_seek(w: &mut StreamCipherCoreWrapper<Self>, ty: u8, pos: u128) -> Result<(), SeekFail> {
        w_seek(w, ty, pos)
    }
    fn w_pos(w: &StreamCipherCoreWrapper<Self>, ty: u8) -> Result<u128, ()> {
        w_pos(w, ty)
    }
    fn w_debug(w: &StreamCipherCoreWrapper<Self>) -> String {
        format!("{:?}\n{:#?}", w, w)
    }
    fn w_clone(w: &StreamCipherCoreWrapper<Self>) -> Option<StreamCipherCoreWrapper<Self>> {
        Some(w.clone())
    }
    fn c_clone_from(&mut self, src: &Self) -> bool {
        self.clone_from(src);
        true
    }
    fn w_clone_from(dst: &mut StreamCipherCoreWrapper<Self>, src: &StreamCipherCoreWrapper<Self>) -> bool {
        dst.clone_from(src);
        true
    }
}

impl<C> CoreCaps for ofb::OfbCore<C>
where
    C: BlockCipherEncrypt + Clone + AlgorithmName + 'static,
{
    fn c_export(&self) -> Option<Vec<u8>> {
        Some(self.iv_state().to_vec())
    }
    fn c_clone(&self) -> Option<Self> {
        Some(self.clone())
    }
    fn c_debug(&self) -> String {
        format!("{:?}\n{:#?}", self, self)
    }
    fn c_alg() -> String {
        fmt_alg::<Self>()
    }
    fn w_debug(w: &StreamCipherCoreWrapper<Self>) -> String {
        format!("{:?}\n{:#?}", w, w)
    }
    fn w_clone(w: &StreamCipherCoreWrapper<Self>) -> Option<StreamCipherCoreWrapper<Self>> {
        Some(w.clone())
    }
    fn c_clone_from(&mut self, src: &Self) -> bool {
        self.clone_from(src);
        true
    }
    fn w_clone_from(dst: &mut StreamCipherCoreWrapper<Self>, src: &StreamCipherCoreWrapper<Self>) -> bool {
        dst.clone_from(src);
        true
    }
}

macro_rules! caps_belt {
    ($C:ty, $exp:expr) => {
        impl CoreCaps for belt_ctr::BeltCtrCore<$C> {
            fn c_seekable() -> bool {
                true
            }
            fn c_get_pos(&self) -> Option<u128> {
                Some(self.get_block_pos())
            }
            fn c_set_pos(&mut self, p: u128) -> Option<bool> {
                self.set_block_pos(p);
                Some(true)
            }
            fn c_export(&self) -> Option<Vec<u8>> {
                let f: fn(&Self) -> Option<Vec<u8>> = $exp;
                f(self)
            }
            fn c_debug(&self) -> String {
                format!("{:?}\n{:#?}", self, self)
            }
            fn c_alg() -> String {
                fmt_alg::<Self>()
            }
            fn w_seek(w: &mut StreamCipherCoreWrapper<Self>, ty: u8, pos: u128) -> Result<(), SeekFail> {
                w_seek(w, ty, pos)
            }
            fn w_pos(w: &StreamCipherCoreWrapper<Self>, ty: u8) -> Result<u128, ()> {
                w_pos(w, ty)
            }
            fn w_debug(w: &StreamCipherCoreWrapper<Self>) -> String {
                format!("{:?}\n{:#?}", w, w)
            }
        }
    };
}
caps_belt!(SimCipher<U16>, |s| Some(s.iv_state().to_vec()));
caps_belt!(SimCipherEnc<U16>, |_| None);
caps_belt!(Traced<BeltBlock>, |s| Some(s.iv_state().to_vec()));

// ---------------------------------------------------------------------------------------------
// generic makers

fn enc<M>(c: M::Inner, key: &[u8], iv: &[u8], ctor: u8) -> Result<Box<dyn BlockObj>, MkErr>
where
    M: BlockModeEncrypt + Clone + Debug + AlgorithmName + Caps + InnerIvInit + KeyIvInit + 'static,
{
    construct::<M>(c, key, iv, ctor)
        .map(|m| Box::new(EncO(Slot::new(m))) as Box<dyn BlockObj>)
        .map_err(|_| MkErr::Rejected)
}
fn dec<M>(c: M::Inner, key: &[u8], iv: &[u8], ctor: u8) -> Result<Box<dyn BlockObj>, MkErr>
where
    M: BlockModeDecrypt + Clone + Debug + AlgorithmName + Caps + InnerIvInit + KeyIvInit + 'static,
{
    construct::<M>(c, key, iv, ctor)
        .map(|m| Box::new(DecO(Slot::new(m))) as Box<dyn BlockObj>)
        .map_err(|_| MkErr::Rejected)
}

macro_rules! block_full {
    ($C:ty, $c:expr, $mode:expr, $key:expr, $iv:expr, $ctor:expr) => {
        match $mode {
            "cbc.enc" => enc::<cbc::Encryptor<$C>>($c, $key, $iv, $ctor),
            "cbc.dec" => dec::<cbc::Decryptor<$C>>($c, $key, $iv, $ctor),
            "pcbc.enc" => enc::<pcbc::Encryptor<$C>>($c, $key, $iv, $ctor),
            "pcbc.dec" => dec::<pcbc::Decryptor<$C>>($c, $key, $iv, $ctor),
            "ige.enc" => enc::<ige::Encryptor<$C>>($c, $key, $iv, $ctor),
            "ige.dec" => dec::<ige::Decryptor<$C>>($c, $key, $iv, $ctor),
            "cfb.enc" => enc::<cfb_mode::Encryptor<$C>>($c, $key, $iv, $ctor),
            "cfb.dec" => dec::<cfb_mode::Decryptor<$C>>($c, $key, $iv, $ctor),
            "cfb8.enc" => enc::<cfb8::Encryptor<$C>>($c, $key, $iv, $ctor),
            "cfb8.dec" => dec::<cfb8::Decryptor<$C>>($c, $key, $iv, $ctor),
            "ofb.enc" => enc::<ofb::OfbCore<$C>>($c, $key, $iv, $ctor),
            "ofb.dec" => dec::<ofb::OfbCore<$C>>($c, $key, $iv, $ctor),
            _ => Err(MkErr::Unsupported),
        }
    };
}
macro_rules! block_enc_only {
    ($C:ty, $c:expr, $mode:expr, $key:expr, $iv:expr, $ctor:expr) => {
        match $mode {
            "cfb.enc" => enc::<cfb_mode::Encryptor<$C>>($c, $key, $iv, $ctor),
            "cfb.dec" => dec::<cfb_mode::Decryptor<$C>>($c, $key, $iv, $ctor),
            "cfb8.enc" => enc::<cfb8::Encryptor<$C>>($c, $key, $iv, $ctor),
            "cfb8.dec" => dec::<cfb8::Decryptor<$C>>($c, $key, $iv, $ctor),
            "ofb.enc" => enc::<ofb::OfbCore<$C>>($c, $key, $iv, $ctor),
            "ofb.dec" => dec::<ofb::OfbCore<$C>>($c, $key, $iv, $ctor),
            _ => Err(MkErr::Unsupported),
        }
    };
}

macro_rules! general_bs {
    ($bs:expr, $m:ident, $($args:tt)*) => {
        match $bs {
            1 => $m!(U1, $($args)*),
            2 => $m!(U2, $($args)*),
            3 => $m!(U3, $($args)*),
            8 => $m!(U8, $($args)*),
            16 => $m!(U16, $($args)*),
            17 => $m!(U17, $($args)*),
            255 => $m!(U255, $($args)*),
            _ => Err(MkErr::Unsupported),
        }
    };
}

fn real_key<C: KeyInit>(key: &[u8], tag: u8) -> Traced<C> {
    // see SimCipher::with_tag: with a wrong-length slice this instance is never used
    let mut k = vec![0u8; C::key_size()];
    let n = key.len().min(k.len());
    k[..n].copy_from_slice(&key[..n]);
    Traced {
        inner: C::new_from_slice(&k).expect("harness: real cipher key"),
        tag,
    }
}

pub fn make_block(mode: &str, bs: usize, ck: CK, key: &[u8], iv: &[u8], tag: u8, ctor: u8) -> Result<Box<dyn BlockObj>, MkErr> {
    crate::simcipher::env_new_tag(tag);
    if !ciphers_for(mode, bs).contains(&ck) || !BLOCK_MODES.contains(&mode) {
        return Err(MkErr::Unsupported);
    }
    match ck {
        CK::Sim => {
            macro_rules! go {
                ($U:ty, $mode:expr) => {
                    block_full!(SimCipher<$U>, SimCipher::<$U>::with_tag(key, tag), $mode, key, iv, ctor)
                };
            }
            general_bs!(bs, go, mode)
        }
        CK::SimEnc => {
            macro_rules! go {
                ($U:ty, $mode:expr) => {
                    block_enc_only!(SimCipherEnc<$U>, SimCipherEnc::<$U>::with_tag(key, tag), $mode, key, iv, ctor)
                };
            }
            general_bs!(bs, go, mode)
        }
        CK::Aes128 => block_full!(Traced<Aes128>, real_key::<Aes128>(key, tag), mode, key, iv, ctor),
        CK::Magma => match mode {
            "cbc.enc" => enc::<cbc::Encryptor<Traced<Magma>>>(real_key(key, tag), key, iv, ctor),
            "cbc.dec" => dec::<cbc::Decryptor<Traced<Magma>>>(real_key(key, tag), key, iv, ctor),
            "cfb8.enc" => enc::<cfb8::Encryptor<Traced<Magma>>>(real_key(key, tag), key, iv, ctor),
            "cfb8.dec" => dec::<cfb8::Decryptor<Traced<Magma>>>(real_key(key, tag), key, iv, ctor),
            _ => Err(MkErr::Unsupported),
        },
        CK::Kuz => match mode {
            "cbc.enc" => enc::<cbc::Encryptor<Traced<Kuznyechik>>>(real_key(key, tag), key, iv, ctor),
            "cbc.dec" => dec::<cbc::Decryptor<Traced<Kuznyechik>>>(real_key(key, tag), key, iv, ctor),
            _ => Err(MkErr::Unsupported),
        },
        CK::Belt => match mode {
            "cfb.enc" => enc::<cfb_mode::Encryptor<Traced<BeltBlock>>>(real_key(key, tag), key, iv, ctor),
            "cfb.dec" => dec::<cfb_mode::Decryptor<Traced<BeltBlock>>>(real_key(key, tag), key, iv, ctor),
            _ => Err(MkErr::Unsupported),
        },
    }
}

// ---------------------------------------------------------------------------------------------
// stream cores and wrappers

fn core<T>(c: T::Inner, key: &[u8], iv: &[u8], ctor: u8) -> Result<Box<dyn CoreObj>, MkErr>
where
    T: CoreCaps + InnerIvInit + KeyIvInit,
{
    construct::<T>(c, key, iv, ctor)
        .map(|m| Box::new(CoreO(Slot::new(m))) as Box<dyn CoreObj>)
        .map_err(|_| MkErr::Rejected)
}

/// the core type behind a public byte-stream alias: the harness names types only through the
/// aliases users write (ctr::Ctr64LE<C>, ofb::Ofb<C>, belt_ctr::BeltCtr<C>)
pub trait AliasCore {
    type Core;
}
impl<T: cipher::StreamCipherCore> AliasCore for StreamCipherCoreWrapper<T> {
    type Core = T;
}
pub type CoreOf<A> = <A as AliasCore>::Core;

macro_rules! ctr_core {
    // 16-byte blocks (valid for every flavour): named through the public alias, so that an alias
    // bound to the wrong flavour still compiles and shows up as a violation
    ($C:ty, $c:expr, $F:ident, $key:expr, $iv:expr, $ctor:expr, alias) => {
        core::<CoreOf<ctr::$F<$C>>>($c, $key, $iv, $ctor)
    };
    ($C:ty, $c:expr, $F:ident, $key:expr, $iv:expr, $ctor:expr) => {
        core::<ctr::CtrCore<$C, ctr::flavors::$F>>($c, $key, $iv, $ctor)
    };
}

macro_rules! ctr_sizes {
    ($bs:expr, $F:ident, $Cm:ident, $key:expr, $iv:expr, $ctor:expr, $tag:expr; $($n:literal => $U:ty),*) => {
        match $bs {
            16 => ctr_core!($Cm<U16>, $Cm::<U16>::with_tag($key, $tag), $F, $key, $iv, $ctor, alias),
            $( $n => ctr_core!($Cm<$U>, $Cm::<$U>::with_tag($key, $tag), $F, $key, $iv, $ctor), )*
            _ => Err(MkErr::Unsupported),
        }
    };
}

macro_rules! ctr_family {
    ($mode:expr, $bs:expr, $Cm:ident, $key:expr, $iv:expr, $ctor:expr, $tag:expr) => {
        match $mode {
            "ctr32be" => ctr_sizes!($bs, Ctr32BE, $Cm, $key, $iv, $ctor, $tag; 4 => U4, 8 => U8, 12 => U12, 252 => U252),
            "ctr32le" => ctr_sizes!($bs, Ctr32LE, $Cm, $key, $iv, $ctor, $tag; 4 => U4, 8 => U8, 12 => U12, 252 => U252),
            "ctr64be" => ctr_sizes!($bs, Ctr64BE, $Cm, $key, $iv, $ctor, $tag; 8 => U8, 24 => U24, 248 => U248),
            "ctr64le" => ctr_sizes!($bs, Ctr64LE, $Cm, $key, $iv, $ctor, $tag; 8 => U8, 24 => U24, 248 => U248),
            "ctr128be" => ctr_sizes!($bs, Ctr128BE, $Cm, $key, $iv, $ctor, $tag; 32 => U32, 240 => U240),
            "ctr128le" => ctr_sizes!($bs, Ctr128LE, $Cm, $key, $iv, $ctor, $tag; 32 => U32, 240 => U240),
            _ => Err(MkErr::Unsupported),
        }
    };
}

macro_rules! ctr_real {
    ($mode:expr, $C:ty, $key:expr, $iv:expr, $ctor:expr, $tag:expr; $($name:literal => $F:ident),*) => {
        match $mode {
            $( $name => ctr_core!(Traced<$C>, real_key::<$C>($key, $tag), $F, $key, $iv, $ctor), )*
            _ => Err(MkErr::Unsupported),
        }
    };
}
macro_rules! ctr_real_alias {
    ($mode:expr, $C:ty, $key:expr, $iv:expr, $ctor:expr, $tag:expr; $($name:literal => $F:ident),*) => {
        match $mode {
            $( $name => ctr_core!(Traced<$C>, real_key::<$C>($key, $tag), $F, $key, $iv, $ctor, alias), )*
            _ => Err(MkErr::Unsupported),
        }
    };
}

pub fn make_core(mode: &str, bs: usize, ck: CK, key: &[u8], iv: &[u8], tag: u8, ctor: u8) -> Result<Box<dyn CoreObj>, MkErr> {
    crate::simcipher::env_new_tag(tag);
    if !ciphers_for(mode, bs).contains(&ck) || !STREAM_MODES.contains(&mode) {
        return Err(MkErr::Unsupported);
    }
    if mode == "ofb" {
        return match ck {
            CK::Sim => {
                macro_rules! go {
                    ($U:ty, $x:expr) => {
                        core::<CoreOf<ofb::Ofb<SimCipher<$U>>>>(SimCipher::<$U>::with_tag(key, tag), key, iv, ctor)
                    };
                }
                general_bs!(bs, go, ())
            }
            CK::SimEnc => {
                macro_rules! go {
                    ($U:ty, $x:expr) => {
                        core::<CoreOf<ofb::Ofb<SimCipherEnc<$U>>>>(SimCipherEnc::<$U>::with_tag(key, tag), key, iv, ctor)
                    };
                }
                general_bs!(bs, go, ())
            }
            CK::Aes128 => core::<CoreOf<ofb::Ofb<Traced<Aes128>>>>(real_key(key, tag), key, iv, ctor),
            CK::Magma => core::<CoreOf<ofb::Ofb<Traced<Magma>>>>(real_key(key, tag), key, iv, ctor),
            _ => Err(MkErr::Unsupported),
        };
    }
    if mode == "belt" {
        return match ck {
            CK::Sim => core::<CoreOf<belt_ctr::BeltCtr<SimCipher<U16>>>>(SimCipher::with_tag(key, tag), key, iv, ctor),
            CK::SimEnc => core::<CoreOf<belt_ctr::BeltCtr<SimCipherEnc<U16>>>>(SimCipherEnc::with_tag(key, tag), key, iv, ctor),
            CK::Belt => core::<CoreOf<belt_ctr::BeltCtr<Traced<BeltBlock>>>>(real_key(key, tag), key, iv, ctor),
            _ => Err(MkErr::Unsupported),
        };
    }
    match ck {
        CK::Sim => ctr_family!(mode, bs, SimCipher, key, iv, ctor, tag),
        CK::SimEnc => ctr_family!(mode, bs, SimCipherEnc, key, iv, ctor, tag),
        CK::Aes128 => ctr_real_alias!(mode, Aes128, key, iv, ctor, tag; "ctr32be" => Ctr32BE, "ctr32le" => Ctr32LE,
            "ctr64be" => Ctr64BE, "ctr64le" => Ctr64LE, "ctr128be" => Ctr128BE, "ctr128le" => Ctr128LE),
        CK::Kuz => ctr_real_alias!(mode, Kuznyechik, key, iv, ctor, tag; "ctr32be" => Ctr32BE, "ctr32le" => Ctr32LE,
            "ctr64be" => Ctr64BE, "ctr64le" => Ctr64LE, "ctr128be" => Ctr128BE, "ctr128le" => Ctr128LE),
        CK::Magma => ctr_real!(mode, Magma, key, iv, ctor, tag; "ctr32be" => Ctr32BE, "ctr32le" => Ctr32LE,
            "ctr64be" => Ctr64BE, "ctr64le" => Ctr64LE),
        CK::Belt => Err(MkErr::Unsupported),
    }
}

/// the public byte-level aliases: built with `KeyIvInit::new` on the wrapper (ctor 1), with
/// `new_from_slices` (ctor 2) or from a core (ctor 0, 3)
pub fn make_stream(mode: &str, bs: usize, ck: CK, key: &[u8], iv: &[u8], tag: u8, ctor: u8) -> Result<Box<dyn StreamObj>, MkErr> {
    // the wrapper's own KeyIvInit forwards to the core's; building the core with the same
    // constructor and wrapping it with `from_core` is what `StreamCipherCoreWrapper::new` does,
    // except for ctor 1/2 where we go through the wrapper type itself (see make_stream_direct).
    if ctor == 1 || ctor == 2 {
        if let Some(r) = make_stream_direct(mode, bs, ck, key, iv, tag, ctor) {
            return r;
        }
    }
    make_core(mode, bs, ck, key, iv, tag, ctor).map(|c| c.into_stream())
}

fn wrap<T>(key: &[u8], iv: &[u8], ctor: u8) -> Result<Box<dyn StreamObj>, MkErr>
where
    T: CoreCaps + KeyIvInit,
{
    let w = if ctor == 1 {
        let kb = Array::<u8, T::KeySize>::try_from(key).expect("harness: key length");
        let ivb = Array::<u8, T::IvSize>::try_from(iv).expect("harness: iv length");
        <StreamCipherCoreWrapper<T> as KeyIvInit>::new(&kb, &ivb)
    } else {
        <StreamCipherCoreWrapper<T> as KeyIvInit>::new_from_slices(key, iv).map_err(|_| MkErr::Rejected)?
    };
    Ok(Box::new(StrO(Slot::new(w))))
}

/// direct construction of the alias types for the toy cipher at a few sizes and the real ciphers
fn make_stream_direct(mode: &str, bs: usize, ck: CK, key: &[u8], iv: &[u8], tag: u8, ctor: u8) -> Option<Result<Box<dyn StreamObj>, MkErr>> {
    crate::simcipher::env_new_tag(tag);
    Some(match (mode, bs, ck) {
        ("ctr32be", 16, CK::Sim) => wrap::<CoreOf<ctr::Ctr32BE<SimCipher<U16>>>>(key, iv, ctor),
        ("ctr32le", 8, CK::Sim) => wrap::<ctr::CtrCore<SimCipher<U8>, ctr::flavors::Ctr32LE>>(key, iv, ctor),
        ("ctr64be", 8, CK::Sim) => wrap::<ctr::CtrCore<SimCipher<U8>, ctr::flavors::Ctr64BE>>(key, iv, ctor),
        ("ctr64le", 16, CK::Sim) => wrap::<CoreOf<ctr::Ctr64LE<SimCipher<U16>>>>(key, iv, ctor),
        ("ctr128be", 16, CK::Sim) => wrap::<CoreOf<ctr::Ctr128BE<SimCipher<U16>>>>(key, iv, ctor),
        ("ctr128le", 32, CK::Sim) => wrap::<ctr::CtrCore<SimCipher<U32>, ctr::flavors::Ctr128LE>>(key, iv, ctor),
        ("ctr128be", 16, CK::Aes128) => wrap::<CoreOf<ctr::Ctr128BE<Traced<Aes128>>>>(key, iv, ctor),
        ("ctr32le", 16, CK::Aes128) => wrap::<CoreOf<ctr::Ctr32LE<Traced<Aes128>>>>(key, iv, ctor),
        ("ofb", 16, CK::Sim) => wrap::<CoreOf<ofb::Ofb<SimCipher<U16>>>>(key, iv, ctor),
        ("ofb", 3, CK::Sim) => wrap::<CoreOf<ofb::Ofb<SimCipher<U3>>>>(key, iv, ctor),
        ("ofb", 16, CK::Aes128) => wrap::<CoreOf<ofb::Ofb<Traced<Aes128>>>>(key, iv, ctor),
        ("belt", 16, CK::Sim) => wrap::<CoreOf<belt_ctr::BeltCtr<SimCipher<U16>>>>(key, iv, ctor),
        ("belt", 16, CK::Belt) => wrap::<CoreOf<belt_ctr::BeltCtr<Traced<BeltBlock>>>>(key, iv, ctor),
        _ => return None,
    })
}

// ---------------------------------------------------------------------------------------------
// buffered CFB

fn bufmk<C>(mode: &str, c: C, key: &[u8], iv: &[u8], ctor: u8, state: Option<usize>) -> Result<Box<dyn BufObj>, MkErr>
where
    C: BlockCipherEncrypt + Clone + AlgorithmName + KeyInit + 'static,
{
    if let Some(pos) = state {
        let ivb = Array::<u8, C::BlockSize>::try_from(iv).expect("harness: state length");
        return Ok(match mode {
            "cfb.bufenc" => Box::new(BufEncO(Slot::new(cfb_mode::BufEncryptor::from_state(c, &ivb, pos)))),
            _ => Box::new(BufDecO(Slot::new(cfb_mode::BufDecryptor::from_state(c, &ivb, pos)))),
        });
    }
    match mode {
        "cfb.bufenc" => construct::<cfb_mode::BufEncryptor<C>>(c, key, iv, ctor)
            .map(|m| Box::new(BufEncO(Slot::new(m))) as Box<dyn BufObj>)
            .map_err(|_| MkErr::Rejected),
        "cfb.bufdec" => construct::<cfb_mode::BufDecryptor<C>>(c, key, iv, ctor)
            .map(|m| Box::new(BufDecO(Slot::new(m))) as Box<dyn BufObj>)
            .map_err(|_| MkErr::Rejected),
        _ => Err(MkErr::Unsupported),
    }
}

/// `state = Some(pos)`: build with `from_state(cipher, iv, pos)` (iv is then the exported block)
pub fn make_buf(mode: &str, bs: usize, ck: CK, key: &[u8], iv: &[u8], tag: u8, ctor: u8, state: Option<usize>) -> Result<Box<dyn BufObj>, MkErr> {
    crate::simcipher::env_new_tag(tag);
    if !BUF_MODES.contains(&mode) {
        return Err(MkErr::Unsupported);
    }
    match ck {
        CK::Sim => {
            macro_rules! go {
                ($U:ty, $x:expr) => {
                    bufmk(mode, SimCipher::<$U>::with_tag(key, tag), key, iv, ctor, state)
                };
            }
            general_bs!(bs, go, ())
        }
        CK::SimEnc => {
            macro_rules! go {
                ($U:ty, $x:expr) => {
                    bufmk(mode, SimCipherEnc::<$U>::with_tag(key, tag), key, iv, ctor, state)
                };
            }
            general_bs!(bs, go, ())
        }
        CK::Aes128 if bs == 16 => bufmk(mode, real_key::<Aes128>(key, tag), key, iv, ctor, state),
        CK::Belt if bs == 16 => bufmk(mode, real_key::<BeltBlock>(key, tag), key, iv, ctor, state),
        _ => Err(MkErr::Unsupported),
    }
}

// ---------------------------------------------------------------------------------------------
// cts

fn cts_cbc<M>(c: M::Inner, key: &[u8], iv: &[u8], ctor: u8, decrypt: bool, form: u8, inp: &[u8], out: &mut [u8]) -> Result<Result<(), ()>, MkErr>
where
    M: cts::Encrypt + cts::Decrypt + InnerIvInit + KeyIvInit,
{
    let m = construct::<M>(c, key, iv, ctor).map_err(|_| MkErr::Rejected)?;
    Ok(if decrypt { cts_dec(m, form, inp, out) } else { cts_enc(m, form, inp, out) })
}
fn cts_ecb<M>(c: M::Inner, key: &[u8], ctor: u8, decrypt: bool, form: u8, inp: &[u8], out: &mut [u8]) -> Result<Result<(), ()>, MkErr>
where
    M: cts::Encrypt + cts::Decrypt + InnerInit + KeyInit,
{
    let m = match ctor {
        0 | 3 => M::inner_init(c),
        1 => {
            let kb = Array::<u8, M::KeySize>::try_from(key).expect("harness: key length");
            <M as KeyInit>::new(&kb)
        }
        _ => <M as KeyInit>::new_from_slice(key).map_err(|_| MkErr::Rejected)?,
    };
    Ok(if decrypt { cts_dec(m, form, inp, out) } else { cts_enc(m, form, inp, out) })
}

macro_rules! cts_all {
    ($C:ty, $c:expr, $mode:expr, $key:expr, $iv:expr, $ctor:expr, $dec:expr, $form:expr, $inp:expr, $out:expr) => {
        match $mode {
            "cbc-cs1" => cts_cbc::<cts::CbcCs1<$C>>($c, $key, $iv, $ctor, $dec, $form, $inp, $out),
            "cbc-cs2" => cts_cbc::<cts::CbcCs2<$C>>($c, $key, $iv, $ctor, $dec, $form, $inp, $out),
            "cbc-cs3" => cts_cbc::<cts::CbcCs3<$C>>($c, $key, $iv, $ctor, $dec, $form, $inp, $out),
            "ecb-cs1" => cts_ecb::<cts::EcbCs1<$C>>($c, $key, $ctor, $dec, $form, $inp, $out),
            "ecb-cs2" => cts_ecb::<cts::EcbCs2<$C>>($c, $key, $ctor, $dec, $form, $inp, $out),
            "ecb-cs3" => cts_ecb::<cts::EcbCs3<$C>>($c, $key, $ctor, $dec, $form, $inp, $out),
            _ => Err(MkErr::Unsupported),
        }
    };
}

/// one cts operation. Outer Err: harness-level (unsupported / constructor rejected);
/// inner: the library's verdict.
#[allow(clippy::too_many_arguments)]
pub fn cts_run(mode: &str, bs: usize, ck: CK, key: &[u8], iv: &[u8], tag: u8, ctor: u8, decrypt: bool, form: u8, inp: &[u8], out: &mut [u8]) -> Result<Result<(), ()>, MkErr> {
    crate::simcipher::env_new_tag(tag);
    match ck {
        CK::Sim => {
            macro_rules! go {
                ($U:ty, $x:expr) => {
                    cts_all!(SimCipher<$U>, SimCipher::<$U>::with_tag(key, tag), mode, key, iv, ctor, decrypt, form, inp, out)
                };
            }
            general_bs!(bs, go, ())
        }
        CK::Aes128 if bs == 16 => cts_all!(Traced<Aes128>, real_key::<Aes128>(key, tag), mode, key, iv, ctor, decrypt, form, inp, out),
        CK::Belt if bs == 16 => cts_all!(Traced<BeltBlock>, real_key::<BeltBlock>(key, tag), mode, key, iv, ctor, decrypt, form, inp, out),
        _ => Err(MkErr::Unsupported),
    }
}

fn cts_pair<M>(m: M, decrypt: bool, form: u8, a: &[u8], oa: &mut [u8], b: &[u8], ob: &mut [u8], clone_first: bool) -> (Result<(), ()>, Result<(), ()>)
where
    M: cts::Encrypt + cts::Decrypt + Clone,
{
    // the clone and the original are each consumed by one call, in either order
    let c = m.clone();
    let run = |x: M, i: &[u8], o: &mut [u8]| if decrypt { cts_dec(x, form, i, o) } else { cts_enc(x, form, i, o) };
    if clone_first {
        let rc = run(c, b, ob);
        let ro = run(m, a, oa);
        (ro, rc)
    } else {
        let ro = run(m, a, oa);
        let rc = run(c, b, ob);
        (ro, rc)
    }
}

macro_rules! cts_pair_all {
    ($C:ty, $c:expr, $mode:expr, $key:expr, $iv:expr, $($rest:expr),*) => {
        match $mode {
            "cbc-cs1" => construct::<cts::CbcCs1<$C>>($c, $key, $iv, 0).map(|m| cts_pair(m, $($rest),*)).map_err(|_| MkErr::Rejected),
            "cbc-cs2" => construct::<cts::CbcCs2<$C>>($c, $key, $iv, 0).map(|m| cts_pair(m, $($rest),*)).map_err(|_| MkErr::Rejected),
            "cbc-cs3" => construct::<cts::CbcCs3<$C>>($c, $key, $iv, 0).map(|m| cts_pair(m, $($rest),*)).map_err(|_| MkErr::Rejected),
            "ecb-cs1" => Ok(cts_pair(<cts::EcbCs1<$C> as InnerInit>::inner_init($c), $($rest),*)),
            "ecb-cs2" => Ok(cts_pair(<cts::EcbCs2<$C> as InnerInit>::inner_init($c), $($rest),*)),
            "ecb-cs3" => Ok(cts_pair(<cts::EcbCs3<$C> as InnerInit>::inner_init($c), $($rest),*)),
            _ => Err(MkErr::Unsupported),
        }
    };
}

/// one cts object, cloned; original processes `a`, the clone processes `b` (C16)
#[allow(clippy::too_many_arguments)]
pub fn cts_clone_pair(mode: &str, bs: usize, ck: CK, key: &[u8], iv: &[u8], tag: u8, decrypt: bool, form: u8, a: &[u8], oa: &mut [u8], b: &[u8], ob: &mut [u8], clone_first: bool) -> Result<(Result<(), ()>, Result<(), ()>), MkErr> {
    crate::simcipher::env_new_tag(tag);
    match ck {
        CK::Sim => {
            macro_rules! go {
                ($U:ty, $x:expr) => {
                    cts_pair_all!(SimCipher<$U>, SimCipher::<$U>::with_tag(key, tag), mode, key, iv, decrypt, form, a, oa, b, ob, clone_first)
                };
            }
            general_bs!(bs, go, ())
        }
        CK::Aes128 if bs == 16 => cts_pair_all!(Traced<Aes128>, real_key::<Aes128>(key, tag), mode, key, iv, decrypt, form, a, oa, b, ob, clone_first),
        _ => Err(MkErr::Unsupported),
    }
}

/// raw single-block primitive of a cipher kind (for the reference model and for C14's
/// "ECB variants equal raw block encryption")
pub fn prim_enc(ck: CK, key: &[u8], block: &mut [u8]) {
    match ck {
        CK::Sim | CK::SimEnc => crate::simcipher::perm(&key[..8].try_into().unwrap(), block),
        CK::Aes128 => Aes128::new_from_slice(key).unwrap().encrypt_block(block.try_into().unwrap()),
        CK::Magma => Magma::new_from_slice(key).unwrap().encrypt_block(block.try_into().unwrap()),
        CK::Kuz => Kuznyechik::new_from_slice(key).unwrap().encrypt_block(block.try_into().unwrap()),
        CK::Belt => BeltBlock::new_from_slice(key).unwrap().encrypt_block(block.try_into().unwrap()),
    }
}
pub fn prim_dec(ck: CK, key: &[u8], block: &mut [u8]) {
    match ck {
        CK::Sim | CK::SimEnc => crate::simcipher::perm_inv(&key[..8].try_into().unwrap(), block),
        CK::Aes128 => Aes128::new_from_slice(key).unwrap().decrypt_block(block.try_into().unwrap()),
        CK::Magma => Magma::new_from_slice(key).unwrap().decrypt_block(block.try_into().unwrap()),
        CK::Kuz => Kuznyechik::new_from_slice(key).unwrap().decrypt_block(block.try_into().unwrap()),
        CK::Belt => BeltBlock::new_from_slice(key).unwrap().decrypt_block(block.try_into().unwrap()),
    }
}

#[allow(unused)]
fn _u<T: BlockSizeUser>() -> usize {
    T::BlockSize::USIZE
}
