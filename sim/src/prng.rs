//! The only source of randomness in the simulator: splitmix64 for seed derivation and
//! xoshiro256** for the two per-run streams (`plan` and `env`).  No clock, no address and no
//! hash-map order ever feeds a decision.

#[inline]
pub fn splitmix64(x: &mut u64) -> u64 {
    *x = x.wrapping_add(0x9E37_79B9_7F4A_7C15);
    let mut z = *x;
    z = (z ^ (z >> 30)).wrapping_mul(0xBF58_476D_1CE4_E5B9);
    z = (z ^ (z >> 27)).wrapping_mul(0x94D0_49BB_1331_11EB);
    z ^ (z >> 31)
}

pub fn fnv1a(s: &[u8]) -> u64 {
    let mut h = 0xcbf2_9ce4_8422_2325u64;
    for b in s {
        h ^= *b as u64;
        h = h.wrapping_mul(0x0000_0100_0000_01B3);
    }
    h
}

/// Incremental FNV-style hasher used for run fingerprints and signatures.
#[derive(Clone, Copy)]
pub struct Fp(pub u64);
impl Fp {
    pub fn new() -> Self {
        Fp(0xcbf2_9ce4_8422_2325)
    }
    #[inline]
    pub fn bytes(&mut self, s: &[u8]) {
        for b in s {
            self.0 ^= *b as u64;
            self.0 = self.0.wrapping_mul(0x0000_0100_0000_01B3);
        }
        self.u(s.len() as u64);
    }
    #[inline]
    pub fn u(&mut self, v: u64) {
        self.0 ^= v;
        self.0 = self.0.wrapping_mul(0x0000_0100_0000_01B3);
        self.0 ^= self.0 >> 29;
    }
    pub fn s(&mut self, s: &str) {
        self.bytes(s.as_bytes())
    }
}

#[derive(Clone, Debug)]
pub struct Rng {
    s: [u64; 4],
}

impl Rng {
    pub fn new(seed: u64) -> Self {
        let mut x = seed;
        let s = [
            splitmix64(&mut x),
            splitmix64(&mut x),
            splitmix64(&mut x),
            splitmix64(&mut x),
        ];
        Rng { s }
    }
    #[inline]
    pub fn next(&mut self) -> u64 {
        let r = self.s[1].wrapping_mul(5).rotate_left(7).wrapping_mul(9);
        let t = self.s[1] << 17;
        self.s[2] ^= self.s[0];
        self.s[3] ^= self.s[1];
        self.s[1] ^= self.s[2];
        self.s[0] ^= self.s[3];
        self.s[2] ^= t;
        self.s[3] = self.s[3].rotate_left(45);
        r
    }
    /// uniform in 0..n (n > 0)
    #[inline]
    pub fn below(&mut self, n: u64) -> u64 {
        debug_assert!(n > 0);
        // multiply-shift; bias is irrelevant here
        (((self.next() >> 11) as u128 * n as u128) >> 53) as u64
    }
    #[inline]
    pub fn usize(&mut self, n: usize) -> usize {
        self.below(n as u64) as usize
    }
    /// uniform in lo..=hi
    pub fn range(&mut self, lo: u64, hi: u64) -> u64 {
        lo + self.below(hi - lo + 1)
    }
    /// true with probability num/den
    pub fn chance(&mut self, num: u64, den: u64) -> bool {
        self.below(den) < num
    }
    pub fn pick<'a, T>(&mut self, xs: &'a [T]) -> &'a T {
        &xs[self.usize(xs.len())]
    }
    pub fn u128(&mut self) -> u128 {
        ((self.next() as u128) << 64) | self.next() as u128
    }
    pub fn bytes(&mut self, n: usize) -> Vec<u8> {
        let mut v = Vec::with_capacity(n);
        while v.len() < n {
            let x = self.next().to_le_bytes();
            let k = (n - v.len()).min(8);
            v.extend_from_slice(&x[..k]);
        }
        v
    }
    /// bytes with structure: random, all-equal, counting, sparse; never used for secrets in C17.
    pub fn data(&mut self, n: usize) -> Vec<u8> {
        match self.below(8) {
            0 => vec![0u8; n],
            1 => vec![0xff; n],
            2 => (0..n).map(|i| i as u8).collect(),
            _ => self.bytes(n),
        }
    }

    /// boundary-biased number of blocks in 0..=max
    pub fn nblocks(&mut self, max: u64, w: u64) -> u64 {
        let w = w.max(1);
        let v = match self.below(12) {
            0 => 0,
            1 => 1,
            2 => 2,
            3 => w,
            4 => w + 1,
            5 => w.saturating_sub(1),
            6 => 2 * w,
            7 => 2 * w + 1 + self.below(w),
            8 => 3 * w - 1,
            _ => self.below(max + 1),
        };
        v.min(max)
    }

    /// a long one-shot length (up to ~4 KiB, at least 9 units): whole units plus a boundary-biased
    /// tail below one unit.  For thresholds ("messages longer than N blocks") that short
    /// boundary-biased lengths never reach.
    pub fn nbytes_long(&mut self, bs: u64) -> u64 {
        let bs = bs.max(1);
        let maxu = (4096 / bs).max(12);
        let units = match self.below(4) {
            0 => 9 + self.below(56),
            1 => *self.pick(&[15u64, 16, 17, 31, 32, 33, 63, 64, 65, 127, 128, 129]),
            _ => 9 + self.below(maxu - 8),
        }
        .min(maxu);
        let tail = match self.below(5) {
            0 | 1 => 0,
            2 => 1,
            3 => bs - 1,
            _ => self.below(bs),
        };
        units * bs + tail
    }

    /// boundary-biased byte length in 0..=max for block size bs
    pub fn nbytes(&mut self, max: u64, bs: u64) -> u64 {
        let v = match self.below(14) {
            0 => 0,
            1 => 1,
            2 => bs - 1,
            3 => bs,
            4 => bs + 1,
            5 => 2 * bs,
            6 => 2 * bs - 1,
            7 => 2 * bs + 1,
            8 => bs * self.below(6),
            9 => bs * self.below(6) + 1,
            10 => (bs * (1 + self.below(6))).saturating_sub(1),
            _ => self.below(max + 1),
        };
        v.min(max)
    }
}

/// seed of run `r` of check `name` under VERIF_SEED `base`
pub fn run_seed(base: u64, name: &str, r: u64) -> u64 {
    let mut x = base ^ fnv1a(name.as_bytes()) ^ r.wrapping_mul(0x9E37_79B9_7F4A_7C15);
    splitmix64(&mut x)
}
