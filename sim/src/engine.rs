//! The search engine: seeded runs on a worker pool, verdict handling, minimisation, replay files,
//! known findings, evidence.  One run = one thread; run `r` of a check depends only on
//! (VERIF_SEED, check id, r), and results are merged by run index, so outcomes do not depend on
//! the number of workers.

use crate::json::J;
use crate::prng::{Fp, Rng, run_seed};
use crate::scn::Scn;
use crate::simcipher::{self, SeamStats};
use std::cell::RefCell;
use std::collections::{BTreeMap, BTreeSet};
use std::panic::{AssertUnwindSafe, catch_unwind};
use std::sync::Mutex;
use std::sync::atomic::{AtomicU64, Ordering};
use std::time::Instant;

#[derive(Clone, Debug, PartialEq)]
pub enum Verdict {
    Ok,
    Violation { clause: String, detail: String },
    /// the scenario does not satisfy its own preconditions (shrinker artefact): never reported
    Invalid(String),
    /// the harness contradicted itself: exit 2, never a VIOLATION
    Harness(String),
}

/// per-run observation context
pub struct Ctx {
    pub probes: BTreeMap<&'static str, u64>,
    pub faults: BTreeMap<&'static str, u64>,
    /// signature of the run's shape (configuration class, op kinds, path shapes)
    pub sig: Fp,
    /// fingerprint of everything observable (outputs included): determinism evidence
    pub fp: Fp,
    /// did the run reach the property's relevant branch?
    pub nontrivial: bool,
    pub max_pos: u128,
}
impl Ctx {
    pub fn new() -> Ctx {
        Ctx {
            probes: BTreeMap::new(),
            faults: BTreeMap::new(),
            sig: Fp::new(),
            fp: Fp::new(),
            nontrivial: false,
            max_pos: 0,
        }
    }
    pub fn probe(&mut self, name: &'static str) {
        *self.probes.entry(name).or_insert(0) += 1;
    }
    pub fn probe_if(&mut self, c: bool, name: &'static str) {
        if c {
            self.probe(name)
        }
    }
    pub fn fault(&mut self, name: &'static str) {
        *self.faults.entry(name).or_insert(0) += 1;
    }
    pub fn pos(&mut self, p: u128) {
        if p > self.max_pos {
            self.max_pos = p
        }
    }
}

pub struct CheckDef {
    pub id: &'static str,
    pub level: &'static str,
    pub runs_quick: u64,
    pub runs_thorough: u64,
    pub rule: &'static str,
    /// probes that must be non-zero in the thorough tier (else harness error: workload must change)
    pub required_probes: &'static [&'static str],
    pub r#gen: fn(&mut Rng, bool) -> Scn,
    pub exec: fn(&Scn, &mut Ctx) -> Verdict,
    pub components: &'static str,
    pub assumptions: &'static [&'static str],
    /// the property itself demands determinism of the code under test (C16): a run whose
    /// re-execution differs is then a violation, not a harness error
    pub nondet_is_violation: bool,
}

static INTERN: Mutex<BTreeMap<String, &'static str>> = Mutex::new(BTreeMap::new());
/// probe names built at run time (bounded set): interned to &'static str
pub fn intern(s: &str) -> &'static str {
    let mut m = INTERN.lock().unwrap();
    if let Some(v) = m.get(s) {
        return v;
    }
    let l: &'static str = Box::leak(s.to_string().into_boxed_str());
    m.insert(s.to_string(), l);
    l
}

thread_local! {
    static LAST_PANIC: RefCell<String> = RefCell::new(String::new());
    static IN_GUARD: std::cell::Cell<bool> = std::cell::Cell::new(false);
}

pub fn install_panic_hook() {
    std::panic::set_hook(Box::new(|info| {
        let msg = if let Some(s) = info.payload().downcast_ref::<&str>() {
            s.to_string()
        } else if let Some(s) = info.payload().downcast_ref::<String>() {
            s.clone()
        } else {
            "panic".to_string()
        };
        let loc = info
            .location()
            .map(|l| {
                let f = l.file();
                // keep registry / repo relative tails only, so messages do not depend on the machine
                let f = f.rsplit("/registry/src/").next().unwrap_or(f);
                format!("{}:{}", f, l.line())
            })
            .unwrap_or_default();
        if !IN_GUARD.with(|g| g.get()) {
            eprintln!("HARNESS-ERROR: panic outside an executor: {} at {}", msg, loc);
        }
        LAST_PANIC.with(|p| *p.borrow_mut() = format!("{} at {}", msg, loc));
    }));
}

/// run an executor; a panic in code under test is a violation ("panic"), a panic whose message
/// starts with "harness:" is a harness error
pub fn guarded(exec: fn(&Scn, &mut Ctx) -> Verdict, scn: &Scn, ctx: &mut Ctx) -> Verdict {
    IN_GUARD.with(|g| g.set(true));
    let r = catch_unwind(AssertUnwindSafe(|| exec(scn, ctx)));
    IN_GUARD.with(|g| g.set(false));
    match r {
        Ok(v) => v,
        Err(_) => {
            let msg = LAST_PANIC.with(|p| p.borrow().clone());
            // a panic raised by the harness's own sources (relative path src/...) is never a finding
            let own = msg.rsplit(" at ").next().map(|l| l.starts_with("src/")).unwrap_or(false);
            if msg.starts_with("harness:") || own {
                Verdict::Harness(msg)
            } else {
                Verdict::Violation { clause: "panic".into(), detail: msg }
            }
        }
    }
}

// ---------------------------------------------------------------------------------------------
// shrinking

fn same_failure(v: &Verdict, clause: &str) -> bool {
    matches!(v, Verdict::Violation { clause: c, .. } if c == clause)
}

/// delta-debugging over scenarios: keep an edit iff the *same oracle clause* still fails
pub fn shrink(def: &CheckDef, scn: &Scn, clause: &str, budget: usize, reject: &dyn Fn(&Scn, &str, &str) -> bool) -> (Scn, usize) {
    let mut best = scn.clone();
    let mut tries = 0usize;
    let test = |c: &Scn, tries: &mut usize| -> bool {
        *tries += 1;
        let mut ctx = Ctx::new();
        match guarded(def.exec, c, &mut ctx) {
            // same oracle clause, and the edit must not turn the failure into a recorded finding
            Verdict::Violation { clause: cl, detail } if cl == clause => !reject(c, &cl, &detail),
            _ => false,
        }
    };
    let mut progress = true;
    while progress && tries < budget {
        progress = false;
        // 1. drop operations (chunks, then singles)
        let mut chunk = best.ops.len().max(1) / 2;
        while chunk >= 1 && tries < budget {
            let mut i = 0;
            while i + chunk <= best.ops.len() && tries < budget {
                let mut c = best.clone();
                c.ops.drain(i..i + chunk);
                if test(&c, &mut tries) {
                    best = c;
                    progress = true;
                } else {
                    i += 1;
                }
            }
            chunk /= 2;
        }
        // 2. simplify operation arguments
        for i in 0..best.ops.len() {
            if tries >= budget {
                break;
            }
            let o = best.ops[i].clone();
            let mut cands = Vec::new();
            for n in [0, 1, o.n / 2, o.n.saturating_sub(1)] {
                if n < o.n {
                    let mut c = o.clone();
                    c.n = n;
                    cands.push(c);
                }
            }
            for m in [0, 1, o.m / 2, o.m.saturating_sub(1)] {
                if m < o.m {
                    let mut c = o.clone();
                    c.m = m;
                    cands.push(c);
                }
            }
            if o.via != 0 {
                let mut c = o.clone();
                c.via = 0;
                cands.push(c);
            }
            if o.ty != 0 {
                let mut c = o.clone();
                c.ty = 0;
                cands.push(c);
            }
            let bs = best.bs.max(1) as u128;
            for p in [0, o.p / 2, o.p - o.p % bs, o.p.saturating_sub(1), o.p.saturating_sub(bs)] {
                if p < o.p {
                    let mut c = o.clone();
                    c.p = p;
                    cands.push(c);
                }
            }
            for c in cands {
                if tries >= budget {
                    break;
                }
                let mut s = best.clone();
                s.ops[i] = c;
                if test(&s, &mut tries) {
                    best = s;
                    progress = true;
                    break;
                }
            }
        }
        // 3. simplify the environment
        for t in 0..best.pol.len() {
            if best.pol[t] != simcipher::Policy::Fixed(1) && tries < budget {
                let mut c = best.clone();
                c.pol[t] = simcipher::Policy::Fixed(1);
                if test(&c, &mut tries) {
                    best = c;
                    progress = true;
                } else if let simcipher::Policy::Flap(v) = &best.pol[t] {
                    for w in v.clone() {
                        let mut c = best.clone();
                        c.pol[t] = simcipher::Policy::Fixed(w);
                        if tries < budget && test(&c, &mut tries) {
                            best = c;
                            progress = true;
                            break;
                        }
                    }
                }
            }
        }
        // 4. simplify data, iv, key
        let mut edits: Vec<Scn> = Vec::new();
        if best.data.len() > 1 {
            let mut c = best.clone();
            c.data.truncate(best.data.len() / 2);
            edits.push(c);
        }
        if best.data.iter().any(|b| *b != 0) {
            let mut c = best.clone();
            c.data = vec![0; best.data.len().min(4).max(1)];
            edits.push(c);
            let mut c = best.clone();
            c.data = (0..best.data.len().min(64)).map(|i| i as u8).collect();
            if c.data != best.data {
                edits.push(c);
            }
        }
        if best.iv.iter().any(|b| *b != 0) {
            let mut c = best.clone();
            c.iv = vec![0; best.iv.len()];
            edits.push(c);
        }
        if best.key.iter().any(|b| *b != 0) {
            let mut c = best.clone();
            c.key = vec![0; best.key.len()];
            edits.push(c);
        }
        for (k, v) in best.nums.clone() {
            for nv in [0, v / 2, v.saturating_sub(1)] {
                if nv < v {
                    let mut c = best.clone();
                    c.nums.insert(k.clone(), nv);
                    edits.push(c);
                }
            }
        }
        for c in edits {
            if tries >= budget {
                break;
            }
            if c != best && test(&c, &mut tries) {
                best = c;
                progress = true;
            }
        }
    }
    (best, tries)
}

// ---------------------------------------------------------------------------------------------
// known findings

pub struct Finding {
    pub id: String,
    pub property: String,
    pub text: String,
    pub status: String,
}

pub fn load_findings(root: &str) -> Result<Vec<Finding>, String> {
    let path = format!("{}/known_findings.json", root);
    let src = match std::fs::read_to_string(&path) {
        Ok(s) => s,
        Err(_) => return Ok(Vec::new()),
    };
    let j = J::parse(&src).map_err(|e| format!("{}: {}", path, e))?;
    let mut out = Vec::new();
    for f in j.get("findings").and_then(|v| v.arr()).cloned().unwrap_or_default() {
        let g = |k: &str| f.get(k).and_then(|v| v.str()).unwrap_or("").to_string();
        out.push(Finding { id: g("id"), property: g("property"), text: g("text"), status: g("status") });
    }
    Ok(out)
}

// ---------------------------------------------------------------------------------------------
// the run loop

pub struct RunOpts {
    pub root: String,
    pub tier_thorough: bool,
    pub seed: u64,
    pub threads: usize,
    pub runs_override: Option<u64>,
    pub quiet: bool,
    /// write the evidence JSON here instead of <root>/evidence/<id>.json (control builds)
    pub control_out: Option<String>,
    /// evidence JSON of the positive-control build to validate against (C17)
    pub control_in: Option<String>,
}

struct Acc {
    evaluations: u64,
    nontrivial: u64,
    sigs: Vec<u64>,
    probes: BTreeMap<&'static str, u64>,
    faults: BTreeMap<&'static str, u64>,
    stats: SeamStats,
    fp_xor: u64,
    rechecks: u64,
    recheck_mismatch: u64,
    invalid: u64,
    max_pos: u128,
    failures: Vec<(u64, String, String)>,
    harness: Vec<String>,
    samples: Vec<(u64, J)>,
    modes: BTreeMap<String, u64>,
    ciphers: BTreeMap<String, u64>,
    sizes: BTreeMap<usize, u64>,
}
impl Acc {
    fn new() -> Acc {
        Acc {
            evaluations: 0,
            nontrivial: 0,
            sigs: Vec::new(),
            probes: BTreeMap::new(),
            faults: BTreeMap::new(),
            stats: SeamStats::default(),
            fp_xor: 0,
            rechecks: 0,
            recheck_mismatch: 0,
            invalid: 0,
            max_pos: 0,
            failures: Vec::new(),
            harness: Vec::new(),
            samples: Vec::new(),
            modes: BTreeMap::new(),
            ciphers: BTreeMap::new(),
            sizes: BTreeMap::new(),
        }
    }
    fn merge(&mut self, o: Acc) {
        self.evaluations += o.evaluations;
        self.nontrivial += o.nontrivial;
        self.sigs.extend(o.sigs);
        if self.sigs.len() > 1 << 22 {
            self.sigs.sort_unstable();
            self.sigs.dedup();
        }
        for (k, v) in o.probes {
            *self.probes.entry(k).or_insert(0) += v;
        }
        for (k, v) in o.faults {
            *self.faults.entry(k).or_insert(0) += v;
        }
        self.stats.add(&o.stats);
        self.fp_xor ^= o.fp_xor;
        self.rechecks += o.rechecks;
        self.recheck_mismatch += o.recheck_mismatch;
        self.invalid += o.invalid;
        self.max_pos = self.max_pos.max(o.max_pos);
        self.failures.extend(o.failures);
        self.harness.extend(o.harness);
        self.samples.extend(o.samples);
        for (k, v) in o.modes {
            *self.modes.entry(k).or_insert(0) += v;
        }
        for (k, v) in o.ciphers {
            *self.ciphers.entry(k).or_insert(0) += v;
        }
        for (k, v) in o.sizes {
            *self.sizes.entry(k).or_insert(0) += v;
        }
    }
}

/// fingerprint of one run (scenario + everything the executor hashed)
pub fn run_once(def: &CheckDef, scn: &Scn) -> (Verdict, Ctx, u64) {
    let mut ctx = Ctx::new();
    let v = guarded(def.exec, scn, &mut ctx);
    let mut f = Fp::new();
    f.u(scn.hash());
    f.u(ctx.fp.0);
    f.u(ctx.sig.0);
    f.u(simcipher::env_wlog());
    f.s(&format!("{:?}", v));
    (v, ctx, f.0)
}

fn search(def: &CheckDef, opts: &RunOpts, total: u64) -> Acc {
    let next = AtomicU64::new(0);
    let acc = Mutex::new(Acc::new());
    const CHUNK: u64 = 32;
    std::thread::scope(|s| {
        for _ in 0..opts.threads.max(1) {
            s.spawn(|| {
                let mut a = Acc::new();
                loop {
                    let start = next.fetch_add(CHUNK, Ordering::Relaxed);
                    if start >= total {
                        break;
                    }
                    for r in start..(start + CHUNK).min(total) {
                        let seed = run_seed(opts.seed, def.id, r);
                        let mut rng = Rng::new(seed);
                        let scn = match catch_unwind(AssertUnwindSafe(|| (def.r#gen)(&mut rng, opts.tier_thorough))) {
                            Ok(s) => s,
                            Err(_) => {
                                a.harness.push(format!("run {}: generator panicked: {}", r, LAST_PANIC.with(|p| p.borrow().clone())));
                                continue;
                            }
                        };
                        let (v, ctx, fp) = run_once(def, &scn);
                        let st = simcipher::env_stats();
                        a.evaluations += 1;
                        a.fp_xor ^= fp.rotate_left((r % 63) as u32);
                        *a.modes.entry(scn.mode.clone()).or_insert(0) += 1;
                        *a.ciphers.entry(scn.cipher.name().to_string()).or_insert(0) += 1;
                        *a.sizes.entry(scn.bs).or_insert(0) += 1;
                        // determinism recheck on a 2% sample (and on every failure)
                        let failing = matches!(v, Verdict::Violation { .. });
                        if r % 50 == 7 || failing {
                            let (_, _, fp2) = run_once(def, &scn);
                            a.rechecks += 1;
                            if fp2 != fp {
                                a.recheck_mismatch += 1;
                                if def.nondet_is_violation {
                                    if !failing {
                                        a.failures.push((r, "nondeterministic".into(), "re-executing the same scenario in the same process gave a different result: hidden state outside the instances".into()));
                                    }
                                } else {
                                    a.harness.push(format!("run {} is not deterministic (fingerprints differ)", r));
                                }
                            }
                        }
                        match v {
                            Verdict::Ok => {
                                if ctx.nontrivial {
                                    a.nontrivial += 1;
                                    a.sigs.push(ctx.sig.0);
                                }
                                for (k, n) in ctx.probes {
                                    *a.probes.entry(k).or_insert(0) += n;
                                }
                                for (k, n) in ctx.faults {
                                    *a.faults.entry(k).or_insert(0) += n;
                                }
                                a.stats.add(&st);
                                a.max_pos = a.max_pos.max(ctx.max_pos);
                                if a.samples.len() < 2 && ctx.nontrivial && r % 97 == 3 {
                                    a.samples.push((r, scn.brief().with("run", J::U(r as u128)).with("run_seed", J::U(seed as u128))));
                                }
                            }
                            Verdict::Violation { clause, detail } => a.failures.push((r, clause, detail)),
                            Verdict::Invalid(_) => a.invalid += 1,
                            Verdict::Harness(m) => a.harness.push(format!("run {}: {}", r, m)),
                        }
                    }
                }
                acc.lock().unwrap().merge(a);
            });
        }
    });
    acc.into_inner().unwrap()
}

pub fn run_check(def: &CheckDef, opts: &RunOpts) -> i32 {
    let t0 = Instant::now();
    let total = opts
        .runs_override
        .unwrap_or(if opts.tier_thorough { def.runs_thorough } else { def.runs_quick });
    let tier = if opts.tier_thorough { "thorough" } else { "quick" };
    println!(
        "vsim check={} tier={} VERIF_SEED={} runs={} threads={}",
        def.id, tier, opts.seed, total, opts.threads
    );
    let findings = match load_findings(&opts.root).and_then(|f| crate::findings::validate(&f).map(|_| f)) {
        Ok(f) => f,
        Err(e) => {
            println!("HARNESS-ERROR: {}", e);
            return 2;
        }
    };

    let mut acc = search(def, opts, total);
    acc.sigs.sort_unstable();
    acc.sigs.dedup();
    acc.failures.sort();
    acc.samples.sort_by_key(|s| s.0);
    acc.harness.sort();
    let search_s = t0.elapsed().as_secs_f64();

    let mut exit = 0;
    let mut violations = 0u64;
    let mut known_hits: BTreeMap<String, u64> = BTreeMap::new();
    let mut reported: Vec<J> = Vec::new();
    let mut seen_clauses: BTreeSet<String> = BTreeSet::new();

    if !acc.harness.is_empty() {
        for h in acc.harness.iter().take(5) {
            println!("HARNESS-ERROR: {}", h);
        }
        exit = 2;
    }

    // classify failures in run-index order; shrink each (bounded) so that known findings are
    // recognised on the minimised trace and anything else is reported
    let max_shrunk = 64usize;
    let mut shrunk = 0usize;
    let mut unclassified = 0u64;
    for (r, clause, detail0) in acc.failures.iter() {
        let seed = run_seed(opts.seed, def.id, *r);
        let mut rng = Rng::new(seed);
        let scn = (def.r#gen)(&mut rng, opts.tier_thorough);
        // the predicates look at the failing operation itself, so they apply to the raw trace too
        if let Some(f) = crate::findings::classify(&findings, def.id, &scn, clause, detail0) {
            *known_hits.entry(f).or_insert(0) += 1;
            continue;
        }
        if shrunk >= max_shrunk {
            unclassified += 1;
            continue;
        }
        shrunk += 1;
        if clause == "nondeterministic" {
            // not shrinkable by re-execution of a pure function: report the scenario as it is
            violations += 1;
            if reported.iter().any(|r: &J| r.get("clause").and_then(|c| c.str()) == Some("nondeterministic")) {
                continue;
            }
            let file = J::obj()
                .with("engine", J::s("vsim"))
                .with("property", J::s(def.id))
                .with("verif_seed", J::U(opts.seed as u128))
                .with("run_index", J::U(*r as u128))
                .with("minimised", J::Bool(false))
                .with("verdict", J::obj().with("clause", J::s("nondeterministic")).with("detail", J::s(detail0)))
                .with("scenario", scn.to_json());
            let dir = format!("{}/replays", opts.root);
            let _ = std::fs::create_dir_all(&dir);
            let path = format!("{}/{}-{}-{:016x}.json", dir, def.id, opts.seed, scn.hash());
            if std::fs::write(&path, file.pretty()).is_ok() {
                println!("violation: property={} clause=nondeterministic run={} detail={}", def.id, r, detail0);
                println!("VIOLATION property={} replay={}", def.id, path);
                reported.push(J::obj().with("clause", J::s("nondeterministic")).with("replay", J::s(&path)).with("run", J::U(*r as u128)));
                if exit == 0 {
                    exit = 1;
                }
            }
            continue;
        }
        let reject = |c: &Scn, cl: &str, d: &str| crate::findings::classify(&findings, def.id, c, cl, d).is_some();
        let (min, tries) = shrink(def, &scn, clause, 3000, &reject);
        let mut ctx = Ctx::new();
        let v = guarded(def.exec, &min, &mut ctx);
        let (clause2, detail) = match &v {
            Verdict::Violation { clause, detail } => (clause.clone(), detail.clone()),
            other => {
                if def.nondet_is_violation {
                    // the failure does not reproduce when the very same calls are made again: the
                    // outcome depends on state outside the instances, which is what this property forbids
                    violations += 1;
                    if !reported.iter().any(|r: &J| r.get("clause").and_then(|c| c.str()) == Some("nondeterministic")) {
                        let file = J::obj()
                            .with("engine", J::s("vsim"))
                            .with("property", J::s(def.id))
                            .with("verif_seed", J::U(opts.seed as u128))
                            .with("run_index", J::U(*r as u128))
                            .with("minimised", J::Bool(false))
                            .with("verdict", J::obj().with("clause", J::s("nondeterministic")).with("detail", J::S(format!("run failed with clause {} ({}), but re-executing its calls does not fail again", clause, detail0))))
                            .with("scenario", scn.to_json());
                        let dir = format!("{}/replays", opts.root);
                        let _ = std::fs::create_dir_all(&dir);
                        let path = format!("{}/{}-{}-{:016x}.json", dir, def.id, opts.seed, scn.hash());
                        if std::fs::write(&path, file.pretty()).is_ok() {
                            println!("violation: property={} clause=nondeterministic run={} detail=run failed with clause {} but the failure does not reproduce on re-execution: hidden state outside the instances", def.id, r, clause);
                            println!("VIOLATION property={} replay={}", def.id, path);
                            reported.push(J::obj().with("clause", J::s("nondeterministic")).with("replay", J::s(&path)).with("run", J::U(*r as u128)));
                            if exit == 0 {
                                exit = 1;
                            }
                        }
                    }
                    continue;
                }
                println!("HARNESS-ERROR: minimised trace of run {} no longer fails: {:?}", r, other);
                exit = 2;
                continue;
            }
        };
        if let Some(f) = crate::findings::classify(&findings, def.id, &min, &clause2, &detail) {
            *known_hits.entry(f).or_insert(0) += 1;
            continue;
        }
        violations += 1;
        if seen_clauses.contains(&clause2) && reported.len() >= 3 {
            continue;
        }
        seen_clauses.insert(clause2.clone());
        // write the replay file and confirm it in a fresh process
        let file = J::obj()
            .with("engine", J::s("vsim"))
            .with("property", J::s(def.id))
            .with("verif_seed", J::U(opts.seed as u128))
            .with("run_index", J::U(*r as u128))
            .with("run_seed", J::U(seed as u128))
            .with("minimised", J::Bool(true))
            .with("original_ops", J::U(scn.ops.len() as u128))
            .with("shrink_executions", J::U(tries as u128))
            .with("verdict", J::obj().with("clause", J::s(&clause2)).with("detail", J::s(&detail)))
            .with("scenario", min.to_json());
        let dir = format!("{}/replays", opts.root);
        let _ = std::fs::create_dir_all(&dir);
        let path = format!("{}/{}-{}-{:016x}.json", dir, def.id, opts.seed, min.hash());
        if let Err(e) = std::fs::write(&path, file.pretty()) {
            println!("HARNESS-ERROR: cannot write replay file {}: {}", path, e);
            exit = 2;
            continue;
        }
        let confirmed = match std::env::current_exe().ok().and_then(|exe| {
            std::process::Command::new(exe).arg("replay").arg(&path).arg("--root").arg(&opts.root).arg("--quiet").output().ok()
        }) {
            Some(out) => out.status.code() == Some(1),
            None => false,
        };
        if !confirmed && !def.nondet_is_violation {
            println!("HARNESS-ERROR: replay of {} in a fresh process did not reproduce the violation", path);
            exit = 2;
            continue;
        }
        println!("violation: property={} clause={} run={} run_seed={} ops={} (from {}) detail={}", def.id, clause2, r, seed, min.ops.len(), scn.ops.len(), detail);
        println!("VIOLATION property={} replay={}", def.id, path);
        reported.push(J::obj().with("clause", J::s(&clause2)).with("detail", J::s(&detail)).with("replay", J::s(&path)).with("run", J::U(*r as u128)));
        if exit == 0 {
            exit = 1;
        }
    }
    if unclassified > 0 {
        println!("note: {} further failing runs match no known finding and were not minimised (limit {})", unclassified, max_shrunk);
        violations += unclassified;
    }
    if !reported.is_empty() && exit == 2 {
        // at least one violation was minimised, written out and reproduced in a fresh process: that
        // stands on its own feet, whatever else went wrong in other runs of this batch
        println!("note: harness errors were reported above, but {} violation(s) were confirmed by replay in a fresh process: exit 1", reported.len());
        exit = 1;
    }
    if violations > 0 && exit == 0 {
        // can only happen if every minimised trace was lost on the way: never report success then
        println!("HARNESS-ERROR: {} failing runs match no known finding but no replay file could be produced", violations);
        exit = 2;
    }
    for f in findings.iter().filter(|f| f.property == def.id && f.status == "open") {
        let n = known_hits.get(&f.id).copied().unwrap_or(0);
        if n > 0 {
            println!("KNOWN-FINDING: property={} {} [{}; reproduced by {} runs]", def.id, f.text, f.id, n);
        } else {
            println!("note: known finding {} ({}) was not reproduced by this run", f.id, f.text);
        }
    }

    // a check that silently discards most of its scenarios (or never reaches the property's
    // branch) has lost its coverage: that is a harness error, never a pass
    if acc.invalid * 10 > acc.evaluations {
        println!("HARNESS-ERROR: {} of {} scenarios were discarded as invalid (> 10 %): the workload no longer exercises the property", acc.invalid, acc.evaluations);
        if exit == 0 {
            exit = 2;
        }
    }
    if acc.evaluations >= 1000 && acc.nontrivial * 5 < acc.evaluations && acc.failures.is_empty() {
        println!("HARNESS-ERROR: only {} of {} runs were non-trivial (< 20 %)", acc.nontrivial, acc.evaluations);
        if exit == 0 {
            exit = 2;
        }
    }
    // reach probes
    let mut missing = Vec::new();
    for p in def.required_probes {
        if acc.probes.get(p).copied().unwrap_or(0) == 0 {
            missing.push(*p);
        }
    }
    if !missing.is_empty() {
        if opts.tier_thorough && opts.runs_override.is_none() {
            println!("HARNESS-ERROR: reach probes at zero in the thorough tier: {:?}", missing);
            if exit == 0 {
                exit = 2;
            }
        } else {
            println!("note: reach probes at zero: {:?}", missing);
        }
    }

    // positive control (C17): the build without zeroize must have left residue for every type
    let mut control_summary = J::Null;
    if def.id == "C17" && opts.control_out.is_none() {
        match opts.control_in.as_ref().map(|p| std::fs::read_to_string(p).map_err(|e| e.to_string()).and_then(|s| J::parse(&s))) {
            Some(Ok(cj)) => {
                let probes = cj.get("coverage").and_then(|c| c.get("reach_probes")).cloned().unwrap_or(J::obj());
                let mut blind = Vec::new();
                for want in crate::checks::c17::control_expectations() {
                    if probes.get(&want).and_then(|v| v.u64()).unwrap_or(0) == 0 {
                        blind.push(want);
                    }
                }
                if !blind.is_empty() {
                    println!("HARNESS-ERROR: positive control found no residue for {:?}: the scanner is blind for these types", blind);
                    if exit == 0 {
                        exit = 2;
                    }
                }
                control_summary = J::obj()
                    .with("build", J::s("same scenarios, crate features zeroize OFF"))
                    .with("evaluations", cj.get("coverage").and_then(|c| c.get("evaluations")).cloned().unwrap_or(J::Null))
                    .with("probes", probes);
            }
            Some(Err(e)) => {
                println!("HARNESS-ERROR: control evidence unreadable: {}", e);
                if exit == 0 {
                    exit = 2;
                }
            }
            None => {
                println!("HARNESS-ERROR: C17 needs the positive-control run (use ./vcheck C17 <tier>)");
                if exit == 0 {
                    exit = 2;
                }
            }
        }
    }
    let wall = t0.elapsed().as_secs_f64();
    // evidence
    let mut samples: Vec<J> = acc.samples.iter().take(5).map(|s| s.1.clone()).collect();
    if samples.is_empty() {
        // always show at least the first generated scenario
        let mut rng = Rng::new(run_seed(opts.seed, def.id, 0));
        samples.push((def.r#gen)(&mut rng, opts.tier_thorough).brief().with("run", J::U(0)));
    }
    let mapj = |m: &BTreeMap<&'static str, u64>| J::O(m.iter().map(|(k, v)| (k.to_string(), J::U(*v as u128))).collect());
    let cov = J::obj()
        .with("evaluations", J::U(acc.evaluations as u128))
        .with("distinct_nontrivial", J::U(acc.sigs.len() as u128))
        .with("nontrivial_runs", J::U(acc.nontrivial as u128))
        .with("rule", J::s(def.rule))
        .with("samples", J::A(samples))
        .with("exhaustive", J::Bool(false))
        .with("runs_per_hour", J::U(if search_s > 0.0 { (acc.evaluations as f64 / search_s * 3600.0) as u128 } else { 0 }))
        .with("seeds", J::S(format!("VERIF_SEED={} run indices 0..{} (run_seed = splitmix64(VERIF_SEED ^ fnv(check) ^ r*phi))", opts.seed, total)))
        .with("simulated_time", J::s("not applicable: the code under test has no clock, timer or deadline"))
        .with("faults_fired", mapj(&acc.faults))
        .with("fault_kinds_not_applicable", J::s("message loss/duplication/reordering, partitions, clock skew, disk faults, allocation failure, thread scheduling: no such behaviour exists in the nine crates"))
        .with("reach_probes", mapj(&acc.probes))
        .with("invalid_scenarios_discarded", J::U(acc.invalid as u128))
        .with("determinism_rechecks", J::U(acc.rechecks as u128))
        .with("determinism_mismatches", J::U(acc.recheck_mismatch as u128))
        .with("batch_fingerprint", J::S(format!("{:016x}", acc.fp_xor)))
        .with("max_keystream_position_reached", J::S(acc.max_pos.to_string()))
        .with(
            "cipher_seam",
            J::obj()
                .with("backend_calls", J::U(acc.stats.calls as u128))
                .with("calls_by_width", J::A(acc.stats.width_calls.iter().map(|v| J::U(*v as u128)).collect()))
                .with("single_blocks", J::U(acc.stats.singles as u128))
                .with("parallel_groups", J::U(acc.stats.par_groups as u128))
                .with("tail_calls", J::U(acc.stats.tail_calls as u128))
                .with("tail_blocks", J::U(acc.stats.tail_blocks as u128))
                .with("encrypt_direction_blocks", J::U(acc.stats.enc_blocks as u128))
                .with("decrypt_direction_blocks", J::U(acc.stats.dec_blocks as u128)),
        )
        .with("modes", J::O(acc.modes.iter().map(|(k, v)| (k.clone(), J::U(*v as u128))).collect()))
        .with("ciphers", J::O(acc.ciphers.iter().map(|(k, v)| (k.clone(), J::U(*v as u128))).collect()))
        .with("block_sizes", J::O(acc.sizes.iter().map(|(k, v)| (k.to_string(), J::U(*v as u128))).collect()))
        .with("components", J::s(def.components))
        .with("known_findings_reproduced", J::O(known_hits.iter().map(|(k, v)| (k.clone(), J::U(*v as u128))).collect()))
        .with("violations_reported", J::A(reported))
        .with("positive_control", control_summary);
    let ev = J::obj()
        .with("property_id", J::s(def.id))
        .with("tier", J::s(tier))
        .with("seed", J::U(opts.seed as u128))
        .with("level", J::s(def.level))
        .with("coverage", cov)
        .with("assumptions", J::A(def.assumptions.iter().map(|a| J::s(a)).collect()))
        .with("wall_s", J::F(wall))
        .with("violations", J::U(violations as u128));
    let evdir = format!("{}/evidence", opts.root);
    let _ = std::fs::create_dir_all(&evdir);
    let evpath = opts.control_out.clone().unwrap_or_else(|| format!("{}/{}.json", evdir, def.id));
    if let Err(e) = std::fs::write(&evpath, ev.pretty()) {
        println!("HARNESS-ERROR: cannot write evidence {}: {}", evpath, e);
        return 2;
    }
    {
        let mut by: BTreeMap<&str, u64> = BTreeMap::new();
        for (_, c, _) in &acc.failures {
            *by.entry(c.as_str()).or_insert(0) += 1;
        }
        if !by.is_empty() {
            println!("failing runs by oracle clause (before classification): {:?}", by);
        }
    }
    println!(
        "done: property={} evaluations={} distinct_nontrivial={} failures={} violations={} known={} wall={:.1}s exit={}",
        def.id,
        acc.evaluations,
        acc.sigs.len(),
        acc.failures.len(),
        violations,
        known_hits.values().sum::<u64>(),
        wall,
        exit
    );
    exit
}

/// `vsim replay <file>`: execute the stored scenario; exit 1 (and VIOLATION line) iff it violates
pub fn replay(defs: &[CheckDef], path: &str, quiet: bool) -> i32 {
    let src = match std::fs::read_to_string(path) {
        Ok(s) => s,
        Err(e) => {
            println!("HARNESS-ERROR: {}: {}", path, e);
            return 2;
        }
    };
    let j = match J::parse(&src) {
        Ok(j) => j,
        Err(e) => {
            println!("HARNESS-ERROR: {}: {}", path, e);
            return 2;
        }
    };
    let scn = match j.get("scenario").ok_or("no scenario".to_string()).and_then(Scn::from_json) {
        Ok(s) => s,
        Err(e) => {
            println!("HARNESS-ERROR: {}: {}", path, e);
            return 2;
        }
    };
    let def = match defs.iter().find(|d| d.id == scn.check) {
        Some(d) => d,
        None => {
            println!("HARNESS-ERROR: unknown check {}", scn.check);
            return 2;
        }
    };
    let (v, _, fp) = run_once(def, &scn);
    let (_, _, fp2) = run_once(def, &scn);
    if fp != fp2 {
        if def.nondet_is_violation {
            if !quiet {
                println!("replay: property={} clause=nondeterministic: two executions of this trace in one process differ", def.id);
                println!("VIOLATION property={} replay={}", def.id, path);
            }
            return 1;
        }
        println!("HARNESS-ERROR: replay is not deterministic");
        return 2;
    }
    match v {
        Verdict::Violation { clause, detail } => {
            if !quiet {
                println!("replay: property={} clause={} detail={}", def.id, clause, detail);
                println!("VIOLATION property={} replay={}", def.id, path);
            }
            let want = j.get("verdict").and_then(|v| v.get("clause")).and_then(|c| c.str()).unwrap_or("").to_string();
            if !want.is_empty() && want != clause {
                println!("note: recorded clause was {}", want);
            }
            1
        }
        Verdict::Ok => {
            if !quiet {
                println!("replay: property={} holds on this trace", def.id);
            }
            0
        }
        Verdict::Invalid(m) => {
            println!("HARNESS-ERROR: scenario invalid: {}", m);
            2
        }
        Verdict::Harness(m) => {
            println!("HARNESS-ERROR: {}", m);
            2
        }
    }
}


/// batch fingerprint of runs 0..n of a check: xor of per-run fingerprints (order independent)
pub fn batch_fingerprint(def: &CheckDef, seed: u64, runs: u64, threads: usize) -> (u64, u64) {
    let opts = RunOpts { root: String::new(), tier_thorough: false, seed, threads, runs_override: Some(runs), quiet: true, control_out: None, control_in: None };
    let acc = search(def, &opts, runs);
    (acc.fp_xor, acc.failures.len() as u64 + acc.harness.len() as u64)
}

/// `vsim determinism`: every check, several seeds, twice in-process and in child processes at
/// 1, 4 and 16 workers; all fingerprints of one (check, seed) must agree
pub fn determinism(defs: &[CheckDef], runs: u64, seeds: &[u64]) -> i32 {
    let exe = std::env::current_exe().ok();
    let mut bad = 0;
    for def in defs {
        for &seed in seeds {
            let mut fps: Vec<(String, u64)> = Vec::new();
            for t in [1usize, 4, 16] {
                fps.push((format!("in-process/{}w", t), batch_fingerprint(def, seed, runs, t).0));
            }
            fps.push(("in-process/16w again".into(), batch_fingerprint(def, seed, runs, 16).0));
            for t in [1usize, 5, 16] {
                let out = exe.as_ref().and_then(|e| {
                    std::process::Command::new(e)
                        .args(["fp", def.id, "--runs", &runs.to_string(), "--threads", &t.to_string(), "--seed", &seed.to_string()])
                        .output()
                        .ok()
                });
                let v = out.and_then(|o| String::from_utf8_lossy(&o.stdout).trim().parse::<u64>().ok());
                match v {
                    Some(v) => fps.push((format!("child/{}w", t), v)),
                    None => {
                        println!("HARNESS-ERROR: child fingerprint run failed for {}", def.id);
                        bad += 1;
                    }
                }
            }
            let first = fps[0].1;
            if fps.iter().any(|f| f.1 != first) {
                println!("NONDETERMINISM: check={} seed={} fingerprints={:?}", def.id, seed, fps);
                bad += 1;
            } else {
                println!("deterministic: check={} seed={} runs={} fingerprint={:016x} ({} executions compared)", def.id, seed, runs, first, fps.len());
            }
        }
    }
    if bad > 0 { 2 } else { 0 }
}
