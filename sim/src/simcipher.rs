//! The cipher seam (S2): a harness-owned block cipher for every block size 1..255 whose backend
//! width is decided *per call* by the run's `env` PRNG stream and which records every block that
//! crosses the seam.  `perm`/`perm_inv` are plain functions shared with the reference model.

use crate::prng::Rng;
use cipher::{
    AlgorithmName, Block, BlockCipherDecBackend, BlockCipherDecClosure, BlockCipherDecrypt,
    BlockCipherEncBackend, BlockCipherEncClosure, BlockCipherEncrypt, BlockSizeUser, InOut,
    InOutBuf, Key, KeyInit, KeySizeUser, ParBlocks, ParBlocksSizeUser,
    array::ArraySize,
    consts::{U1, U2, U3, U5, U8},
    crypto_common::BlockSizes,
    typenum::Unsigned,
};
use core::fmt;
use core::marker::PhantomData;
use std::cell::RefCell;

pub const WIDTHS: [u8; 5] = [1, 2, 3, 5, 8];

// ---------------------------------------------------------------------------------------------
// toy permutation

const fn gen_sbox() -> [u8; 256] {
    let mut s = [0u8; 256];
    let mut i = 0;
    while i < 256 {
        s[i] = i as u8;
        i += 1;
    }
    // Fisher-Yates with a fixed LCG
    let mut x: u64 = 0x2545_F491_4F6C_DD1D;
    let mut i = 255usize;
    while i > 0 {
        x = x.wrapping_mul(6364136223846793005).wrapping_add(1442695040888963407);
        let j = ((x >> 33) as usize) % (i + 1);
        let t = s[i];
        s[i] = s[j];
        s[j] = t;
        i -= 1;
    }
    s
}
const fn gen_inv(s: &[u8; 256]) -> [u8; 256] {
    let mut r = [0u8; 256];
    let mut i = 0;
    while i < 256 {
        r[s[i] as usize] = i as u8;
        i += 1;
    }
    r
}
pub static SBOX: [u8; 256] = gen_sbox();
pub static SINV: [u8; 256] = gen_inv(&gen_sbox());

const ROUNDS: usize = 3;

#[inline]
fn rk(key: &[u8; 8], r: usize, i: usize) -> u8 {
    key[(i + 3 * r) & 7] ^ (i as u8).wrapping_mul(29) ^ (r as u8).wrapping_mul(0x5b)
}

/// keyed bijection on `x.len()` bytes (any length >= 1), full two-way diffusion
pub fn perm(key: &[u8; 8], x: &mut [u8]) {
    let n = x.len();
    for r in 0..ROUNDS {
        for i in 0..n {
            x[i] = SBOX[(x[i] ^ rk(key, r, i)) as usize];
        }
        for i in 1..n {
            x[i] = x[i].wrapping_add(SBOX[x[i - 1] as usize]);
        }
        for i in (0..n.saturating_sub(1)).rev() {
            x[i] ^= SBOX[x[i + 1] as usize].rotate_left(3);
        }
    }
}

pub fn perm_inv(key: &[u8; 8], x: &mut [u8]) {
    let n = x.len();
    for r in (0..ROUNDS).rev() {
        for i in 0..n.saturating_sub(1) {
            x[i] ^= SBOX[x[i + 1] as usize].rotate_left(3);
        }
        for i in (1..n).rev() {
            x[i] = x[i].wrapping_sub(SBOX[x[i - 1] as usize]);
        }
        for i in 0..n {
            x[i] = SINV[x[i] as usize] ^ rk(key, r, i);
        }
    }
}

// ---------------------------------------------------------------------------------------------
// environment: width policy, seam trace, counters (thread local: one run = one thread)

#[derive(Clone, Debug, PartialEq)]
pub enum Policy {
    Fixed(u8),
    /// a fresh draw from `env` per backend call
    Flap(Vec<u8>),
}

impl Policy {
    pub fn max_width(&self) -> u8 {
        match self {
            Policy::Fixed(w) => *w,
            Policy::Flap(v) => v.iter().copied().max().unwrap_or(1),
        }
    }
}

pub const ENC: u8 = 0;
pub const DEC: u8 = 1;
pub const P_SINGLE: u8 = 0;
pub const P_PAR: u8 = 1;
pub const P_TAIL: u8 = 2;

#[derive(Clone, Copy, Debug)]
pub struct SeamEv {
    pub tag: u8,
    pub dir: u8,
    pub path: u8,
    pub w: u8,
    pub off: u32,
    pub len: u16,
}

#[derive(Clone, Default, Debug)]
pub struct SeamStats {
    pub calls: u64,
    pub singles: u64,
    pub par_groups: u64,
    pub tail_calls: u64,
    pub tail_blocks: u64,
    pub dec_blocks: u64,
    pub enc_blocks: u64,
    pub width_calls: [u64; 9],
}

impl SeamStats {
    pub fn add(&mut self, o: &SeamStats) {
        self.calls += o.calls;
        self.singles += o.singles;
        self.par_groups += o.par_groups;
        self.tail_calls += o.tail_calls;
        self.tail_blocks += o.tail_blocks;
        self.dec_blocks += o.dec_blocks;
        self.enc_blocks += o.enc_blocks;
        for i in 0..9 {
            self.width_calls[i] += o.width_calls[i];
        }
    }
}

pub struct Env {
    pub rng: Rng,
    pub pol: [Policy; 8],
    pub trace_on: bool,
    pub evs: Vec<SeamEv>,
    pub bytes: Vec<u8>,
    pub stats: SeamStats,
    /// tag given to ciphers built through `KeyInit::new`
    pub new_tag: u8,
    /// per-tag sequence of widths handed out (fingerprint material)
    pub wlog: u64,
}

impl Env {
    fn new() -> Env {
        Env {
            rng: Rng::new(0),
            pol: std::array::from_fn(|_| Policy::Fixed(1)),
            trace_on: false,
            evs: Vec::new(),
            bytes: Vec::new(),
            stats: SeamStats::default(),
            new_tag: 0,
            wlog: 0,
        }
    }
}

thread_local! {
    static ENV: RefCell<Env> = RefCell::new(Env::new());
}

pub fn with_env<R>(f: impl FnOnce(&mut Env) -> R) -> R {
    ENV.with(|e| f(&mut e.borrow_mut()))
}

/// start of a run: everything the seam decides derives from `env_seed` and the policies
pub fn env_reset(env_seed: u64) {
    with_env(|e| {
        e.rng = Rng::new(env_seed);
        for p in e.pol.iter_mut() {
            *p = Policy::Fixed(1);
        }
        e.trace_on = false;
        e.evs.clear();
        e.bytes.clear();
        e.stats = SeamStats::default();
        e.new_tag = 0;
        e.wlog = 0;
    })
}
pub fn env_policy(tag: u8, p: Policy) {
    with_env(|e| e.pol[tag as usize & 7] = p)
}
pub fn env_trace(on: bool) {
    with_env(|e| e.trace_on = on)
}
pub fn env_new_tag(tag: u8) {
    with_env(|e| e.new_tag = tag)
}
pub fn env_mark() -> usize {
    with_env(|e| e.evs.len())
}
pub fn env_stats() -> SeamStats {
    with_env(|e| e.stats.clone())
}
pub fn env_wlog() -> u64 {
    with_env(|e| e.wlog)
}
/// events `from..` as (event, input block bytes)
pub fn env_events(from: usize) -> Vec<(SeamEv, Vec<u8>)> {
    with_env(|e| {
        e.evs[from..]
            .iter()
            .map(|ev| {
                (
                    *ev,
                    e.bytes[ev.off as usize..ev.off as usize + ev.len as usize].to_vec(),
                )
            })
            .collect()
    })
}
pub fn env_clear_trace() {
    with_env(|e| {
        e.evs.clear();
        e.bytes.clear();
    })
}

fn pick_width(tag: u8) -> u8 {
    with_env(|e| {
        let w = match &e.pol[tag as usize & 7] {
            Policy::Fixed(w) => *w,
            Policy::Flap(v) => {
                let i = e.rng.usize(v.len());
                v[i]
            }
        };
        e.stats.calls += 1;
        e.stats.width_calls[(w as usize).min(8)] += 1;
        e.wlog = e.wlog.wrapping_mul(0x100000001b3) ^ (w as u64 + 1);
        w
    })
}

#[inline]
fn record(tag: u8, dir: u8, path: u8, w: u8, block: &[u8]) {
    with_env(|e| {
        if dir == ENC {
            e.stats.enc_blocks += 1
        } else {
            e.stats.dec_blocks += 1
        }
        if path == P_SINGLE {
            e.stats.singles += 1
        } else if path == P_TAIL {
            e.stats.tail_blocks += 1
        }
        if e.trace_on {
            let off = e.bytes.len() as u32;
            e.bytes.extend_from_slice(block);
            e.evs.push(SeamEv {
                tag,
                dir,
                path,
                w,
                off,
                len: block.len() as u16,
            });
        }
    })
}

// ---------------------------------------------------------------------------------------------
// the cipher

/// 16 bytes, alignment 1, no padding: so that a mode object built over it has fewer than 8
/// bytes of padding anywhere (matters to the C17 memory scan).
pub struct SimCipher<BS: BlockSizes> {
    key: [u8; 8],
    tag: u8,
    fill: [u8; 7],
    _p: PhantomData<BS>,
}

impl<BS: BlockSizes> Clone for SimCipher<BS> {
    fn clone(&self) -> Self {
        SimCipher {
            key: self.key,
            tag: self.tag,
            fill: self.fill,
            _p: PhantomData,
        }
    }
}

impl<BS: BlockSizes> SimCipher<BS> {
    pub fn with_tag(key: &[u8], tag: u8) -> Self {
        // constructors that take key *bytes* build their own cipher; the instance made here is then
        // unused, so a slice of another length (C13's wrong-length constructions) is tolerated
        let mut k = [0u8; 8];
        let n = key.len().min(8);
        k[..n].copy_from_slice(&key[..n]);
        SimCipher {
            key: k,
            tag,
            fill: [0; 7],
            _p: PhantomData,
        }
    }
    pub fn key(&self) -> [u8; 8] {
        self.key
    }
}

impl<BS: BlockSizes> BlockSizeUser for SimCipher<BS> {
    type BlockSize = BS;
}
impl<BS: BlockSizes> KeySizeUser for SimCipher<BS> {
    type KeySize = U8;
}
impl<BS: BlockSizes> KeyInit for SimCipher<BS> {
    fn new(key: &Key<Self>) -> Self {
        let tag = with_env(|e| e.new_tag);
        Self::with_tag(key.as_slice(), tag)
    }
}
impl<BS: BlockSizes> AlgorithmName for SimCipher<BS> {
    fn write_alg_name(f: &mut fmt::Formatter<'_>) -> fmt::Result {
        f.write_str("Sim")
    }
}

pub struct SimBk<BS, W> {
    key: [u8; 8],
    tag: u8,
    _p: PhantomData<(BS, W)>,
}
impl<BS: BlockSizes, W: ArraySize> BlockSizeUser for SimBk<BS, W> {
    type BlockSize = BS;
}
impl<BS: BlockSizes, W: ArraySize> ParBlocksSizeUser for SimBk<BS, W> {
    type ParBlocksSize = W;
}

impl<BS: BlockSizes, W: ArraySize> BlockCipherEncBackend for SimBk<BS, W> {
    #[inline]
    fn encrypt_block(&self, mut block: InOut<'_, '_, Block<Self>>) {
        let mut t = block.clone_in();
        record(self.tag, ENC, P_SINGLE, W::U8, &t);
        perm(&self.key, &mut t);
        *block.get_out() = t;
    }
    fn encrypt_par_blocks(&self, mut blocks: InOut<'_, '_, ParBlocks<Self>>) {
        with_env(|e| e.stats.par_groups += 1);
        for i in 0..W::USIZE {
            let mut b = blocks.get(i);
            let mut t = b.clone_in();
            record(self.tag, ENC, P_PAR, W::U8, &t);
            perm(&self.key, &mut t);
            *b.get_out() = t;
        }
    }
    fn encrypt_tail_blocks(&self, blocks: InOutBuf<'_, '_, Block<Self>>) {
        assert!(blocks.len() < W::USIZE, "tail call with a full group");
        with_env(|e| e.stats.tail_calls += 1);
        for mut b in blocks {
            let mut t = b.clone_in();
            record(self.tag, ENC, P_TAIL, W::U8, &t);
            perm(&self.key, &mut t);
            *b.get_out() = t;
        }
    }
}

impl<BS: BlockSizes, W: ArraySize> BlockCipherDecBackend for SimBk<BS, W> {
    #[inline]
    fn decrypt_block(&self, mut block: InOut<'_, '_, Block<Self>>) {
        let mut t = block.clone_in();
        record(self.tag, DEC, P_SINGLE, W::U8, &t);
        perm_inv(&self.key, &mut t);
        *block.get_out() = t;
    }
    fn decrypt_par_blocks(&self, mut blocks: InOut<'_, '_, ParBlocks<Self>>) {
        with_env(|e| e.stats.par_groups += 1);
        for i in 0..W::USIZE {
            let mut b = blocks.get(i);
            let mut t = b.clone_in();
            record(self.tag, DEC, P_PAR, W::U8, &t);
            perm_inv(&self.key, &mut t);
            *b.get_out() = t;
        }
    }
    fn decrypt_tail_blocks(&self, blocks: InOutBuf<'_, '_, Block<Self>>) {
        assert!(blocks.len() < W::USIZE, "tail call with a full group");
        with_env(|e| e.stats.tail_calls += 1);
        for mut b in blocks {
            let mut t = b.clone_in();
            record(self.tag, DEC, P_TAIL, W::U8, &t);
            perm_inv(&self.key, &mut t);
            *b.get_out() = t;
        }
    }
}

macro_rules! dispatch_width {
    ($self:ident, $f:ident, $BS:ty) => {{
        let w = pick_width($self.tag);
        let (key, tag) = ($self.key, $self.tag);
        match w {
            1 => $f.call(&SimBk::<$BS, U1> { key, tag, _p: PhantomData }),
            2 => $f.call(&SimBk::<$BS, U2> { key, tag, _p: PhantomData }),
            3 => $f.call(&SimBk::<$BS, U3> { key, tag, _p: PhantomData }),
            5 => $f.call(&SimBk::<$BS, U5> { key, tag, _p: PhantomData }),
            8 => $f.call(&SimBk::<$BS, U8> { key, tag, _p: PhantomData }),
            _ => panic!("harness: width {} not compiled", w),
        }
    }};
}

impl<BS: BlockSizes> BlockCipherEncrypt for SimCipher<BS> {
    fn encrypt_with_backend(&self, f: impl BlockCipherEncClosure<BlockSize = BS>) {
        dispatch_width!(self, f, BS)
    }
}
impl<BS: BlockSizes> BlockCipherDecrypt for SimCipher<BS> {
    fn decrypt_with_backend(&self, f: impl BlockCipherDecClosure<BlockSize = BS>) {
        dispatch_width!(self, f, BS)
    }
}

/// encrypt-direction-only sibling: CFB, CFB-8, OFB, CTR and BelT-CTR must build and run over it
/// (type-level half of "uses only the encryption direction of the cipher").
pub struct SimCipherEnc<BS: BlockSizes>(pub SimCipher<BS>);

impl<BS: BlockSizes> Clone for SimCipherEnc<BS> {
    fn clone(&self) -> Self {
        SimCipherEnc(self.0.clone())
    }
}
impl<BS: BlockSizes> SimCipherEnc<BS> {
    pub fn with_tag(key: &[u8], tag: u8) -> Self {
        SimCipherEnc(SimCipher::with_tag(key, tag))
    }
}
impl<BS: BlockSizes> BlockSizeUser for SimCipherEnc<BS> {
    type BlockSize = BS;
}
impl<BS: BlockSizes> KeySizeUser for SimCipherEnc<BS> {
    type KeySize = U8;
}
impl<BS: BlockSizes> KeyInit for SimCipherEnc<BS> {
    fn new(key: &Key<Self>) -> Self {
        SimCipherEnc(SimCipher::new(key))
    }
}
impl<BS: BlockSizes> AlgorithmName for SimCipherEnc<BS> {
    fn write_alg_name(f: &mut fmt::Formatter<'_>) -> fmt::Result {
        f.write_str("SimEnc")
    }
}
impl<BS: BlockSizes> BlockCipherEncrypt for SimCipherEnc<BS> {
    fn encrypt_with_backend(&self, f: impl BlockCipherEncClosure<BlockSize = BS>) {
        self.0.encrypt_with_backend(f)
    }
}

// ---------------------------------------------------------------------------------------------
// Tracing wrapper for real ciphers: same backend width as the host gives, every block recorded.

#[derive(Clone)]
pub struct Traced<C> {
    pub inner: C,
    pub tag: u8,
}

impl<C: BlockSizeUser> BlockSizeUser for Traced<C> {
    type BlockSize = C::BlockSize;
}
impl<C: KeySizeUser> KeySizeUser for Traced<C> {
    type KeySize = C::KeySize;
}
impl<C: KeyInit> KeyInit for Traced<C> {
    fn new(key: &Key<Self>) -> Self {
        Traced {
            inner: C::new(key),
            tag: with_env(|e| e.new_tag),
        }
    }
}
impl<C: AlgorithmName> AlgorithmName for Traced<C> {
    fn write_alg_name(f: &mut fmt::Formatter<'_>) -> fmt::Result {
        C::write_alg_name(f)
    }
}

struct TrBk<'a, B> {
    b: &'a B,
    tag: u8,
}
impl<B: BlockSizeUser> BlockSizeUser for TrBk<'_, B> {
    type BlockSize = B::BlockSize;
}
impl<B: ParBlocksSizeUser> ParBlocksSizeUser for TrBk<'_, B> {
    type ParBlocksSize = B::ParBlocksSize;
}
impl<B: BlockCipherEncBackend> BlockCipherEncBackend for TrBk<'_, B> {
    fn encrypt_block(&self, block: InOut<'_, '_, Block<Self>>) {
        record(self.tag, ENC, P_SINGLE, B::ParBlocksSize::U8, block.get_in());
        self.b.encrypt_block(block)
    }
    fn encrypt_par_blocks(&self, blocks: InOut<'_, '_, ParBlocks<Self>>) {
        with_env(|e| e.stats.par_groups += 1);
        for b in blocks.get_in().iter() {
            record(self.tag, ENC, P_PAR, B::ParBlocksSize::U8, b);
        }
        self.b.encrypt_par_blocks(blocks)
    }
    fn encrypt_tail_blocks(&self, blocks: InOutBuf<'_, '_, Block<Self>>) {
        assert!(blocks.len() < B::ParBlocksSize::USIZE, "tail call with a full group");
        with_env(|e| e.stats.tail_calls += 1);
        for b in blocks.get_in().iter() {
            record(self.tag, ENC, P_TAIL, B::ParBlocksSize::U8, b);
        }
        self.b.encrypt_tail_blocks(blocks)
    }
}
impl<B: BlockCipherDecBackend> BlockCipherDecBackend for TrBk<'_, B> {
    fn decrypt_block(&self, block: InOut<'_, '_, Block<Self>>) {
        record(self.tag, DEC, P_SINGLE, B::ParBlocksSize::U8, block.get_in());
        self.b.decrypt_block(block)
    }
    fn decrypt_par_blocks(&self, blocks: InOut<'_, '_, ParBlocks<Self>>) {
        with_env(|e| e.stats.par_groups += 1);
        for b in blocks.get_in().iter() {
            record(self.tag, DEC, P_PAR, B::ParBlocksSize::U8, b);
        }
        self.b.decrypt_par_blocks(blocks)
    }
    fn decrypt_tail_blocks(&self, blocks: InOutBuf<'_, '_, Block<Self>>) {
        assert!(blocks.len() < B::ParBlocksSize::USIZE, "tail call with a full group");
        with_env(|e| e.stats.tail_calls += 1);
        for b in blocks.get_in().iter() {
            record(self.tag, DEC, P_TAIL, B::ParBlocksSize::U8, b);
        }
        self.b.decrypt_tail_blocks(blocks)
    }
}

struct TrEncCl<F> {
    f: F,
    tag: u8,
}
impl<F: BlockSizeUser> BlockSizeUser for TrEncCl<F> {
    type BlockSize = F::BlockSize;
}
impl<F: BlockCipherEncClosure> BlockCipherEncClosure for TrEncCl<F> {
    fn call<B: BlockCipherEncBackend<BlockSize = Self::BlockSize>>(self, backend: &B) {
        with_env(|e| {
            e.stats.calls += 1;
            e.stats.width_calls[(B::ParBlocksSize::USIZE).min(8)] += 1;
        });
        self.f.call(&TrBk { b: backend, tag: self.tag })
    }
}
struct TrDecCl<F> {
    f: F,
    tag: u8,
}
impl<F: BlockSizeUser> BlockSizeUser for TrDecCl<F> {
    type BlockSize = F::BlockSize;
}
impl<F: BlockCipherDecClosure> BlockCipherDecClosure for TrDecCl<F> {
    fn call<B: BlockCipherDecBackend<BlockSize = Self::BlockSize>>(self, backend: &B) {
        with_env(|e| {
            e.stats.calls += 1;
            e.stats.width_calls[(B::ParBlocksSize::USIZE).min(8)] += 1;
        });
        self.f.call(&TrBk { b: backend, tag: self.tag })
    }
}

impl<C: BlockCipherEncrypt> BlockCipherEncrypt for Traced<C> {
    fn encrypt_with_backend(&self, f: impl BlockCipherEncClosure<BlockSize = Self::BlockSize>) {
        self.inner.encrypt_with_backend(TrEncCl { f, tag: self.tag })
    }
}
impl<C: BlockCipherDecrypt> BlockCipherDecrypt for Traced<C> {
    fn decrypt_with_backend(&self, f: impl BlockCipherDecClosure<BlockSize = Self::BlockSize>) {
        self.inner.decrypt_with_backend(TrDecCl { f, tag: self.tag })
    }
}

// ---------------------------------------------------------------------------------------------

/// start-up self test of the trusted base; Err = harness error (exit 2)
pub fn self_test() -> Result<(), String> {
    let mut r = Rng::new(0xC0FFEE);
    for &n in &[1usize, 2, 3, 4, 5, 8, 12, 16, 17, 24, 32, 48, 255] {
        for _ in 0..200 {
            let key: [u8; 8] = r.bytes(8).try_into().unwrap();
            let x = r.bytes(n);
            let mut y = x.clone();
            perm(&key, &mut y);
            let mut z = y.clone();
            perm_inv(&key, &mut z);
            if z != x {
                return Err(format!("perm_inv(perm(x)) != x for n={}", n));
            }
            if n >= 4 && y == x {
                return Err(format!("perm is identity on a random block, n={}", n));
            }
        }
    }
    // exhaustive bijectivity for n = 1, 2 under a few keys
    for k in 0..4u8 {
        let key = [k, 1, 2, 3, 4, 5, 6, 7];
        let mut seen = vec![false; 256];
        for v in 0..=255u8 {
            let mut b = [v];
            perm(&key, &mut b);
            if seen[b[0] as usize] {
                return Err("perm not bijective on 1 byte".into());
            }
            seen[b[0] as usize] = true;
        }
        let mut seen = vec![false; 65536];
        for v in 0..=65535u16 {
            let mut b = v.to_le_bytes();
            perm(&key, &mut b);
            let i = u16::from_le_bytes(b) as usize;
            if seen[i] {
                return Err("perm not bijective on 2 bytes".into());
            }
            seen[i] = true;
        }
    }
    // diffusion: flipping any single input bit of a 16-byte block changes every output byte
    // in the overwhelming majority of cases (sanity, not a proof)
    let key = [9, 8, 7, 6, 5, 4, 3, 2];
    let mut weak = 0;
    for bit in 0..128 {
        let x = [0x5au8; 16];
        let mut a = x;
        let mut b = x;
        b[bit / 8] ^= 1 << (bit % 8);
        perm(&key, &mut a);
        perm(&key, &mut b);
        let same = a.iter().zip(b.iter()).filter(|(p, q)| p == q).count();
        if same > 4 {
            weak += 1;
        }
    }
    if weak > 2 {
        return Err(format!("toy permutation diffuses badly ({} weak bits)", weak));
    }
    Ok(())
}
