//! Known findings: genuine defects recorded rather than repaired.  /verif/known_findings.json
//! lists them (never written at run time); each id has a predicate here that is applied to the
//! *minimised* failing trace, its clause and detail.  An entry whose id has no predicate is a
//! harness error; a failure that matches no open entry is a VIOLATION.

use crate::engine::Finding;
use crate::scn::Scn;

/// index of the failing operation, from the "op N:" / "op N " prefix every detail carries
fn failing_op(detail: &str) -> Option<usize> {
    let d = detail.strip_prefix("op ")?;
    let end = d.find(|c: char| !c.is_ascii_digit())?;
    d[..end].parse().ok()
}

fn kf1(scn: &Scn, clause: &str, detail: &str) -> bool {
    // C11: try_seek into the block just past the limit (block index 2^w - 1, byte offset != 0)
    // returns Ok and wraps the counter; 32- and 64-bit CTR flavours through cipher's wrapper.
    if clause != "seek_past_limit" || !(scn.mode.starts_with("ctr32") || scn.mode.starts_with("ctr64")) {
        return false;
    }
    let l: u128 = if scn.mode.starts_with("ctr32") { (1u128 << 32) - 1 } else { (1u128 << 64) - 1 };
    match failing_op(detail).and_then(|i| scn.ops.get(i)) {
        Some(op) if op.k == "seek" => op.p / scn.bs as u128 == l && op.p % scn.bs as u128 != 0,
        _ => false,
    }
}

fn kf2(scn: &Scn, clause: &str, detail: &str) -> bool {
    // C13: BlockModeEncrypt::encrypt_padded_vec::<NoPadding> on a message that is not a whole
    // number of blocks hits an `expect` in the cipher crate's provided method.
    if clause != "panic" || !detail.starts_with("enough space for encrypting is allocated: PadError") || !detail.contains("cipher-0.5.0-pre.8/src/block.rs") {
        return false;
    }
    let g = if scn.mode.starts_with("cfb8") { 1 } else { scn.bs as u64 };
    match scn.ops.last() {
        Some(op) if op.k == "padded" => scn.mode.ends_with("enc") && op.via % 3 == 2 && op.ty % 5 == 2 && op.n % g != 0,
        _ => false,
    }
}

fn kf3(scn: &Scn, clause: &str, _detail: &str) -> bool {
    // C17(a): Debug of cipher's StreamCipherCoreWrapper prints `buffer_data`, the not yet consumed
    // keystream bytes.  The clause is raised only for that field of the byte-stream aliases; the
    // rest of the text and the cores' own Debug are compared under the clause "debug_text".
    clause == "wrapper_debug_buffer_data" && scn.num("fam") == 1 && scn.num("part") == 0
}

const PREDICATES: [(&str, fn(&Scn, &str, &str) -> bool); 3] = [("KF-1", kf1), ("KF-2", kf2), ("KF-3", kf3)];

/// returns the id of the matching open finding
pub fn classify(findings: &[Finding], check: &str, scn: &Scn, clause: &str, detail: &str) -> Option<String> {
    for f in findings {
        if f.property != check || f.status != "open" {
            continue;
        }
        if let Some((_, p)) = PREDICATES.iter().find(|(id, _)| *id == f.id) {
            if p(scn, clause, detail) {
                return Some(f.id.clone());
            }
        }
    }
    None
}

/// every listed open finding must have a predicate
pub fn validate(findings: &[Finding]) -> Result<(), String> {
    for f in findings {
        if f.status == "open" && !PREDICATES.iter().any(|(id, _)| *id == f.id) {
            return Err(format!("known finding {} has no predicate compiled into the harness", f.id));
        }
    }
    Ok(())
}
