//! Known findings: genuine defects recorded rather than repaired.  /verif/known_findings.json
//! lists them (never written at run time); each id has a predicate here that is applied to the
//! *minimised* failing trace and its clause.  An entry whose id has no predicate is a harness
//! error; a failure that matches no open entry is a VIOLATION.

use crate::engine::Finding;
use crate::scn::Scn;

/// returns the id of the matching open finding
pub fn classify(findings: &[Finding], check: &str, scn: &Scn, clause: &str, detail: &str) -> Option<String> {
    for f in findings {
        if f.property != check || f.status != "open" {
            continue;
        }
        let hit = match f.id.as_str() {
            _ => {
                let _ = (scn, clause, detail);
                false
            }
        };
        if hit {
            return Some(f.id.clone());
        }
    }
    None
}

pub fn known_ids() -> &'static [&'static str] {
    &[]
}
