//! Harness-owned, zero-initialised storage for a mode object, so that the bytes left behind by
//! `drop` can be inspected (C17b).  Every object the drivers create lives in a `Slot`.

use std::alloc::{Layout, alloc_zeroed, dealloc};
use std::ops::{Deref, DerefMut};

pub struct Slot<T> {
    p: *mut T,
    live: bool,
}

impl<T> Slot<T> {
    pub fn new(v: T) -> Self {
        let layout = Layout::new::<T>();
        let p = if layout.size() == 0 {
            std::ptr::NonNull::<T>::dangling().as_ptr()
        } else {
            let p = unsafe { alloc_zeroed(layout) } as *mut T;
            assert!(!p.is_null());
            p
        };
        unsafe { std::ptr::write(p, v) };
        Slot { p, live: true }
    }

    /// move the object out (for consuming methods)
    pub fn take(mut self) -> T {
        assert!(self.live);
        self.live = false;
        unsafe { std::ptr::read(self.p) }
    }

    /// run the object's destructor in place and return the bytes of its storage afterwards
    pub fn drop_scan(mut self) -> Vec<u8> {
        assert!(self.live);
        unsafe {
            std::ptr::drop_in_place(self.p);
        }
        self.live = false;
        let n = std::mem::size_of::<T>();
        let b = self.p as *const u8;
        (0..n).map(|i| unsafe { std::ptr::read_volatile(b.add(i)) }).collect()
    }

    /// bytes of the live object (positive-control helper)
    pub fn peek(&self) -> Vec<u8> {
        let n = std::mem::size_of::<T>();
        let b = self.p as *const u8;
        (0..n).map(|i| unsafe { std::ptr::read_volatile(b.add(i)) }).collect()
    }
}

impl<T> Drop for Slot<T> {
    fn drop(&mut self) {
        unsafe {
            if self.live {
                std::ptr::drop_in_place(self.p);
            }
            let layout = Layout::new::<T>();
            if layout.size() != 0 {
                dealloc(self.p as *mut u8, layout);
            }
        }
    }
}

impl<T> Deref for Slot<T> {
    type Target = T;
    fn deref(&self) -> &T {
        debug_assert!(self.live);
        unsafe { &*self.p }
    }
}
impl<T> DerefMut for Slot<T> {
    fn deref_mut(&mut self) -> &mut T {
        debug_assert!(self.live);
        unsafe { &mut *self.p }
    }
}
