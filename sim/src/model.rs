//! Reference model (trusted base): the defining recurrences of the modes, written from the
//! definitions quoted in the property statements, over plain byte vectors.  No buffering, no
//! cursors, no batching, no in-place tricks.  Used only by the conformance checks C02-C04, C06.

pub struct Prim<'a> {
    pub bs: usize,
    pub e: &'a dyn Fn(&mut [u8]),
    pub d: &'a dyn Fn(&mut [u8]),
}

fn xor(a: &mut [u8], b: &[u8]) {
    for (x, y) in a.iter_mut().zip(b) {
        *x ^= *y;
    }
}

/// CBC: C_i = E(P_i ^ C_{i-1}), C_0 = IV.  Returns (output, final chaining value).
pub fn cbc_enc(p: &Prim, iv: &[u8], data: &[u8]) -> (Vec<u8>, Vec<u8>) {
    let mut prev = iv.to_vec();
    let mut out = Vec::new();
    for blk in data.chunks(p.bs) {
        let mut t = blk.to_vec();
        xor(&mut t, &prev);
        (p.e)(&mut t);
        prev = t.clone();
        out.extend(t);
    }
    (out, prev)
}
pub fn cbc_dec(p: &Prim, iv: &[u8], data: &[u8]) -> (Vec<u8>, Vec<u8>) {
    let mut prev = iv.to_vec();
    let mut out = Vec::new();
    for blk in data.chunks(p.bs) {
        let mut t = blk.to_vec();
        (p.d)(&mut t);
        xor(&mut t, &prev);
        prev = blk.to_vec();
        out.extend(t);
    }
    (out, prev)
}

/// PCBC: C_i = E(P_i ^ S_{i-1}), S_0 = IV, S_i = P_i ^ C_i
pub fn pcbc_enc(p: &Prim, iv: &[u8], data: &[u8]) -> (Vec<u8>, Vec<u8>) {
    let mut s = iv.to_vec();
    let mut out = Vec::new();
    for blk in data.chunks(p.bs) {
        let mut t = blk.to_vec();
        xor(&mut t, &s);
        (p.e)(&mut t);
        s = blk.to_vec();
        xor(&mut s, &t);
        out.extend(t);
    }
    (out, s)
}
pub fn pcbc_dec(p: &Prim, iv: &[u8], data: &[u8]) -> (Vec<u8>, Vec<u8>) {
    let mut s = iv.to_vec();
    let mut out = Vec::new();
    for blk in data.chunks(p.bs) {
        let mut t = blk.to_vec();
        (p.d)(&mut t);
        xor(&mut t, &s); // P_i
        s = blk.to_vec();
        xor(&mut s, &t);
        out.extend(t);
    }
    (out, s)
}

/// IGE: C_i = E(P_i ^ C_{i-1}) ^ P_{i-1}; IV = C_0 || P_0.  Chaining value = C_last || P_last.
pub fn ige_enc(p: &Prim, iv: &[u8], data: &[u8]) -> (Vec<u8>, Vec<u8>) {
    let mut c_prev = iv[..p.bs].to_vec();
    let mut p_prev = iv[p.bs..].to_vec();
    let mut out = Vec::new();
    for blk in data.chunks(p.bs) {
        let mut t = blk.to_vec();
        xor(&mut t, &c_prev);
        (p.e)(&mut t);
        xor(&mut t, &p_prev);
        p_prev = blk.to_vec();
        c_prev = t.clone();
        out.extend(t);
    }
    let mut st = c_prev;
    st.extend(p_prev);
    (out, st)
}
pub fn ige_dec(p: &Prim, iv: &[u8], data: &[u8]) -> (Vec<u8>, Vec<u8>) {
    let mut c_prev = iv[..p.bs].to_vec();
    let mut p_prev = iv[p.bs..].to_vec();
    let mut out = Vec::new();
    for blk in data.chunks(p.bs) {
        // P_i = D(C_i ^ P_{i-1}) ^ C_{i-1}
        let mut t = blk.to_vec();
        xor(&mut t, &p_prev);
        (p.d)(&mut t);
        xor(&mut t, &c_prev);
        c_prev = blk.to_vec();
        p_prev = t.clone();
        out.extend(t);
    }
    let mut st = c_prev;
    st.extend(p_prev);
    (out, st)
}

/// CFB, byte granular: C_i = P_i ^ E(C_{i-1}); a partial tail uses the leading keystream bytes.
/// Returns (output, chaining value after the last *full* block).
pub fn cfb(p: &Prim, iv: &[u8], data: &[u8], decrypt: bool) -> (Vec<u8>, Vec<u8>) {
    let mut prev = iv.to_vec();
    let mut out = Vec::new();
    for blk in data.chunks(p.bs) {
        let mut ks = prev.clone();
        (p.e)(&mut ks);
        let mut t = blk.to_vec();
        xor(&mut t, &ks[..blk.len()]);
        if blk.len() == p.bs {
            prev = if decrypt { blk.to_vec() } else { t.clone() };
        }
        out.extend(t);
    }
    (out, prev)
}

/// CFB-8: c_j = p_j ^ first_byte(E(S_j)), S_{j+1} = (S_j << 8) | c_j
pub fn cfb8(p: &Prim, iv: &[u8], data: &[u8], decrypt: bool) -> (Vec<u8>, Vec<u8>) {
    let mut s = iv.to_vec();
    let mut out = Vec::new();
    for &b in data {
        let mut ks = s.clone();
        (p.e)(&mut ks);
        let o = b ^ ks[0];
        let c = if decrypt { b } else { o };
        s.remove(0);
        s.push(c);
        out.push(o);
    }
    (out, s)
}

/// OFB: O_i = E(O_{i-1}), O_0 = IV; output = input ^ O_1 O_2 ...  Chaining value after the last
/// full block.
pub fn ofb(p: &Prim, iv: &[u8], data: &[u8]) -> (Vec<u8>, Vec<u8>) {
    let mut o = iv.to_vec();
    let mut out = Vec::new();
    for blk in data.chunks(p.bs) {
        let mut n = o.clone();
        (p.e)(&mut n);
        let mut t = blk.to_vec();
        xor(&mut t, &n[..blk.len()]);
        out.extend(t);
        if blk.len() == p.bs {
            o = n;
        }
    }
    (out, o)
}

/// the n-th keystream block of OFB (1-based), for byte-stream comparisons
pub fn ofb_keystream(p: &Prim, iv: &[u8], nbytes: usize) -> Vec<u8> {
    let mut o = iv.to_vec();
    let mut out = Vec::new();
    while out.len() < nbytes {
        (p.e)(&mut o);
        out.extend_from_slice(&o);
    }
    out.truncate(nbytes);
    out
}

#[derive(Clone, Copy, Debug, PartialEq)]
pub struct Flavor {
    pub bits: u32,
    pub be: bool,
}

/// CTR counter block for block index `i`: the last (BE) / first (LE) bits/8 bytes of the IV are
/// read as an integer, `i` is added mod 2^bits, the field is written back; nothing else changes.
pub fn ctr_layout(fl: Flavor, iv: &[u8], i: u128) -> Vec<u8> {
    let w = (fl.bits / 8) as usize;
    let n = iv.len();
    let mut out = iv.to_vec();
    let modmask: u128 = if fl.bits == 128 { u128::MAX } else { (1u128 << fl.bits) - 1 };
    if fl.be {
        let mut v: u128 = 0;
        for &b in &iv[n - w..] {
            v = (v << 8) | b as u128;
        }
        let v = v.wrapping_add(i) & modmask;
        for k in 0..w {
            out[n - 1 - k] = (v >> (8 * k)) as u8;
        }
    } else {
        let mut v: u128 = 0;
        for k in 0..w {
            v |= (iv[k] as u128) << (8 * k);
        }
        let v = v.wrapping_add(i) & modmask;
        for k in 0..w {
            out[k] = (v >> (8 * k)) as u8;
        }
    }
    out
}

/// BelT-CTR: s0 = LE(E(IV)); keystream block i (0-based) = E(LE(s0 + i + 1 mod 2^128))
pub fn belt_s0(p: &Prim, iv: &[u8]) -> u128 {
    let mut t = iv.to_vec();
    (p.e)(&mut t);
    u128::from_le_bytes(t.try_into().unwrap())
}
pub fn belt_input(s0: u128, i: u128) -> Vec<u8> {
    s0.wrapping_add(i).wrapping_add(1).to_le_bytes().to_vec()
}

/// n keystream bytes starting at byte `off` of block `block` of a counter-style cipher whose block `i` input is `inp(i)`
pub fn ks_range(p: &Prim, inp: &dyn Fn(u128) -> Vec<u8>, block: u128, off: usize, n: usize) -> Vec<u8> {
    let mut out = Vec::with_capacity(n);
    let mut i = block;
    let mut off = off;
    while out.len() < n {
        let mut b = inp(i);
        (p.e)(&mut b);
        let take = (p.bs - off).min(n - out.len());
        out.extend_from_slice(&b[off..off + take]);
        off = 0;
        i = i.wrapping_add(1);
    }
    out
}

/// padding schemes of the `block-padding` crate, written from their definitions.
/// kind: 0 PKCS#7, 1 ISO 7816-4, 2 none (whole blocks only), 3 zeros (nothing added to whole
/// blocks), 4 ANSI X9.23.  None = the message cannot be padded (NoPadding with a partial block).
pub fn pad(kind: u8, bs: usize, msg: &[u8]) -> Option<Vec<u8>> {
    let r = msg.len() % bs;
    let n = bs - r; // 1..=bs bytes to add for the reversible schemes
    let mut v = msg.to_vec();
    match kind {
        0 => v.extend(std::iter::repeat(n as u8).take(n)),
        1 => {
            v.push(0x80);
            v.extend(std::iter::repeat(0u8).take(n - 1));
        }
        2 => {
            if r != 0 {
                return None;
            }
        }
        3 => {
            if r != 0 {
                v.extend(std::iter::repeat(0u8).take(n));
            }
        }
        _ => {
            v.extend(std::iter::repeat(0u8).take(n - 1));
            v.push(n as u8);
        }
    }
    Some(v)
}
