//! Object layer: every public type of the nine crates behind a small object-safe trait that
//! speaks byte slices, so that checks can drive "any mode over any cipher" from an explicit trace.
//! All code under test is the real code from /repo; this file only adapts call forms.

use crate::prng::Rng;
use crate::slot::Slot;
use cipher::{
    AlgorithmName, AsyncStreamCipher, Block, BlockModeDecBackend, BlockModeDecClosure,
    BlockModeDecrypt, BlockModeEncBackend, BlockModeEncClosure, BlockModeEncrypt, BlockSizeUser,
    InOutBuf, InnerIvInit, IvSizeUser, IvState, KeyIvInit, ParBlocksSizeUser,
    array::Array,
    block_padding::{AnsiX923, Iso7816, NoPadding, Pkcs7, ZeroPadding},
    crypto_common::BlockSizes,
    typenum::Unsigned,
};
use core::fmt::Debug;

pub const PADS: [&str; 5] = ["pkcs7", "iso7816", "nopad", "zeropad", "ansix923"];

#[macro_export]
macro_rules! with_pad {
    ($pad:expr, $P:ident => $e:expr) => {
        match $pad {
            0 => {
                type $P = Pkcs7;
                $e
            }
            1 => {
                type $P = Iso7816;
                $e
            }
            2 => {
                type $P = NoPadding;
                $e
            }
            3 => {
                type $P = ZeroPadding;
                $e
            }
            _ => {
                type $P = AnsiX923;
                $e
            }
        }
    };
}

/// call forms for whole-block processing
pub const VIA_BLOCK: u8 = 0; // *_block, in place
pub const VIA_BLOCK_INOUT: u8 = 1; // *_block_inout, separate buffers
pub const VIA_BLOCK_B2B: u8 = 2; // *_block_b2b
pub const VIA_BLOCKS: u8 = 3; // *_blocks, in place
pub const VIA_BLOCKS_INOUT: u8 = 4; // *_blocks_inout, separate buffers
pub const VIA_BLOCKS_B2B: u8 = 5; // *_blocks_b2b
pub const VIA_SCRIPT: u8 = 6; // *_with_backend with a driver closure, in place
pub const VIA_SCRIPT_B2B: u8 = 7; // same, separate buffers
pub const VIA_BLOCKS_INOUT_INPLACE: u8 = 8; // *_blocks_inout over one buffer
pub const N_VIA: u8 = 9;

pub fn via_in_place(via: u8) -> bool {
    matches!(via, VIA_BLOCK | VIA_BLOCKS | VIA_SCRIPT | VIA_BLOCKS_INOUT_INPLACE)
}
pub fn via_single(via: u8) -> bool {
    matches!(via, VIA_BLOCK | VIA_BLOCK_INOUT | VIA_BLOCK_B2B)
}

pub trait BlockObj {
    fn bs(&self) -> usize;
    fn is_enc(&self) -> bool;
    /// process whole blocks; for in-place forms `out` is overwritten with `inp` first
    fn proc(&mut self, via: u8, seed: u64, inp: &[u8], out: &mut [u8]);
    fn export(&self) -> Option<Vec<u8>>;
    fn dup(&self) -> Box<dyn BlockObj>;
    fn debug(&self) -> String;
    fn alg(&self) -> String;
    fn has_async(&self) -> bool;
    /// consuming one-shots. kind 0..=2: padded (in place, b2b, vec); 3..=5: async byte-level
    /// (in place, b2b, inout).  Returns the length of the result (a prefix of `out`).
    fn finish(self: Box<Self>, kind: u8, pad: u8, inp: &[u8], out: &mut [u8]) -> Result<usize, ()>;
    /// `*_blocks_b2b` with explicit, possibly unequal, slice lengths (whole blocks each)
    fn blocks_b2b_raw(&mut self, inp: &[u8], out: &mut [u8]) -> Result<(), ()>;
    fn drop_scan(self: Box<Self>) -> Vec<u8>;
    fn peek(&self) -> Vec<u8>;
    fn as_any(&self) -> &dyn core::any::Any;
    /// `self.clone_from(src)` if `src` is the same concrete type
    fn assign_from(&mut self, src: &dyn core::any::Any) -> bool;
}

/// optional capabilities that not every (mode, cipher) pair has
pub trait Caps: Sized {
    fn cap_export(&self) -> Option<Vec<u8>> {
        None
    }
    fn cap_async(&self) -> bool {
        false
    }
    fn cap_async_enc(self, _kind: u8, _inp: &[u8], _out: &mut [u8]) -> Result<usize, ()> {
        panic!("harness: no async interface")
    }
    fn cap_async_dec(self, _kind: u8, _inp: &[u8], _out: &mut [u8]) -> Result<usize, ()> {
        panic!("harness: no async interface")
    }
}

pub fn as_blocks<N: cipher::array::ArraySize>(b: &[u8]) -> &[Array<u8, N>] {
    let (c, r) = Array::<u8, N>::slice_as_chunks(b);
    assert!(r.is_empty(), "harness: not whole blocks");
    c
}
pub fn as_blocks_mut<N: cipher::array::ArraySize>(b: &mut [u8]) -> &mut [Array<u8, N>] {
    let (c, r) = Array::<u8, N>::slice_as_chunks_mut(b);
    assert!(r.is_empty(), "harness: not whole blocks");
    c
}

// ---------------------------------------------------------------------------------------------
// driver closures ("scripts") over the public *_with_backend API: single / par / tail calls in a
// PRNG-chosen mixture, decided inside the closure because only there the width is known.

pub struct EncScript<'a, BS: BlockSizes> {
    pub blocks: InOutBuf<'a, 'a, Array<u8, BS>>,
    pub seed: u64,
    /// the buffer is processed in place: the backend's *_inplace methods may be used
    pub inplace: bool,
}
impl<BS: BlockSizes> BlockSizeUser for EncScript<'_, BS> {
    type BlockSize = BS;
}
impl<BS: BlockSizes> BlockModeEncClosure for EncScript<'_, BS> {
    fn call<B: BlockModeEncBackend<BlockSize = BS>>(self, backend: &mut B) {
        let w = <B as ParBlocksSizeUser>::ParBlocksSize::USIZE;
        let mut rng = Rng::new(self.seed);
        let mut rest = self.blocks;
        while !rest.is_empty() {
            let n = rest.len();
            let c = rng.below(3);
            if c == 1 && w > 1 && n >= w {
                let (head, tail) = rest.split_at(w);
                let (chunks, _) = head.into_chunks::<B::ParBlocksSize>();
                for ch in chunks {
                    backend.encrypt_par_blocks(ch);
                }
                rest = tail;
            } else if c == 2 && w > 1 {
                let k = 1 + rng.usize(n.min(w - 1));
                let (head, tail) = rest.split_at(k);
                backend.encrypt_tail_blocks(head);
                rest = tail;
            } else if c == 0 && rng.chance(1, 3) && self.inplace {
                // the in-place convenience of the backend: legal on any buffer pair once the input
                // has been copied to the output side
                let k = if w > 1 { 1 + rng.usize(n.min(w - 1)) } else { 1 };
                let (mut head, tail) = rest.split_at(k);
                for i in 0..k {
                    let mut b = head.get(i);
                    let v = b.clone_in();
                    *b.get_out() = v;
                }
                let out = head.get_out();
                if w == 1 || (k == 1 && rng.chance(1, 2)) {
                    for b in out.iter_mut() {
                        backend.encrypt_block_inplace(b);
                    }
                } else {
                    backend.encrypt_tail_blocks_inplace(out);
                }
                rest = tail;
            } else {
                let (head, tail) = rest.split_at(1);
                for b in head {
                    backend.encrypt_block(b);
                }
                rest = tail;
            }
        }
    }
}

pub struct DecScript<'a, BS: BlockSizes> {
    pub blocks: InOutBuf<'a, 'a, Array<u8, BS>>,
    pub seed: u64,
    pub inplace: bool,
}
impl<BS: BlockSizes> BlockSizeUser for DecScript<'_, BS> {
    type BlockSize = BS;
}
impl<BS: BlockSizes> BlockModeDecClosure for DecScript<'_, BS> {
    fn call<B: BlockModeDecBackend<BlockSize = BS>>(self, backend: &mut B) {
        let w = <B as ParBlocksSizeUser>::ParBlocksSize::USIZE;
        let mut rng = Rng::new(self.seed);
        let mut rest = self.blocks;
        while !rest.is_empty() {
            let n = rest.len();
            let c = rng.below(3);
            if c == 1 && w > 1 && n >= w {
                let (head, tail) = rest.split_at(w);
                let (chunks, _) = head.into_chunks::<B::ParBlocksSize>();
                for ch in chunks {
                    backend.decrypt_par_blocks(ch);
                }
                rest = tail;
            } else if c == 2 && w > 1 {
                let k = 1 + rng.usize(n.min(w - 1));
                let (head, tail) = rest.split_at(k);
                backend.decrypt_tail_blocks(head);
                rest = tail;
            } else if c == 0 && rng.chance(1, 3) && self.inplace {
                // the in-place convenience of the backend: legal on any buffer pair once the input
                // has been copied to the output side
                let k = if w > 1 { 1 + rng.usize(n.min(w - 1)) } else { 1 };
                let (mut head, tail) = rest.split_at(k);
                for i in 0..k {
                    let mut b = head.get(i);
                    let v = b.clone_in();
                    *b.get_out() = v;
                }
                let out = head.get_out();
                if w == 1 || (k == 1 && rng.chance(1, 2)) {
                    for b in out.iter_mut() {
                        backend.decrypt_block_inplace(b);
                    }
                } else {
                    backend.decrypt_tail_blocks_inplace(out);
                }
                rest = tail;
            } else {
                let (head, tail) = rest.split_at(1);
                for b in head {
                    backend.decrypt_block(b);
                }
                rest = tail;
            }
        }
    }
}

// ---------------------------------------------------------------------------------------------

pub struct EncO<M>(pub Slot<M>);
pub struct DecO<M>(pub Slot<M>);

pub fn fmt_alg<M: AlgorithmName>() -> String {
    struct W<M>(core::marker::PhantomData<M>);
    impl<M: AlgorithmName> core::fmt::Display for W<M> {
        fn fmt(&self, f: &mut core::fmt::Formatter<'_>) -> core::fmt::Result {
            M::write_alg_name(f)
        }
    }
    format!("{}", W::<M>(core::marker::PhantomData))
}

impl<M> BlockObj for EncO<M>
where
    M: BlockModeEncrypt + Clone + Debug + AlgorithmName + Caps + 'static,
{
    fn bs(&self) -> usize {
        M::BlockSize::USIZE
    }
    fn is_enc(&self) -> bool {
        true
    }
    fn proc(&mut self, via: u8, seed: u64, inp: &[u8], out: &mut [u8]) {
        assert_eq!(inp.len(), out.len());
        let m: &mut M = &mut self.0;
        if via_in_place(via) {
            out.copy_from_slice(inp);
        }
        match via {
            VIA_BLOCK => {
                for b in as_blocks_mut::<M::BlockSize>(out) {
                    m.encrypt_block(b);
                }
            }
            VIA_BLOCK_INOUT => {
                let i = as_blocks::<M::BlockSize>(inp);
                let o = as_blocks_mut::<M::BlockSize>(out);
                for (a, b) in i.iter().zip(o.iter_mut()) {
                    m.encrypt_block_inout((a, b).into());
                }
            }
            VIA_BLOCK_B2B => {
                let i = as_blocks::<M::BlockSize>(inp);
                let o = as_blocks_mut::<M::BlockSize>(out);
                for (a, b) in i.iter().zip(o.iter_mut()) {
                    m.encrypt_block_b2b(a, b);
                }
            }
            VIA_BLOCKS => m.encrypt_blocks(as_blocks_mut::<M::BlockSize>(out)),
            VIA_BLOCKS_INOUT => {
                let io = InOutBuf::new(as_blocks::<M::BlockSize>(inp), as_blocks_mut::<M::BlockSize>(out)).unwrap();
                m.encrypt_blocks_inout(io);
            }
            VIA_BLOCKS_B2B => m
                .encrypt_blocks_b2b(as_blocks::<M::BlockSize>(inp), as_blocks_mut::<M::BlockSize>(out))
                .unwrap(),
            VIA_SCRIPT => {
                let blocks = as_blocks_mut::<M::BlockSize>(out).into();
                m.encrypt_with_backend(EncScript { blocks, seed, inplace: via == VIA_SCRIPT });
            }
            VIA_SCRIPT_B2B => {
                let blocks = InOutBuf::new(as_blocks::<M::BlockSize>(inp), as_blocks_mut::<M::BlockSize>(out)).unwrap();
                m.encrypt_with_backend(EncScript { blocks, seed, inplace: via == VIA_SCRIPT });
            }
            VIA_BLOCKS_INOUT_INPLACE => {
                m.encrypt_blocks_inout(as_blocks_mut::<M::BlockSize>(out).into());
            }
            _ => panic!("harness: via {}", via),
        }
    }
    fn export(&self) -> Option<Vec<u8>> {
        self.0.cap_export()
    }
    fn dup(&self) -> Box<dyn BlockObj> {
        Box::new(EncO(Slot::new((*self.0).clone())))
    }
    fn debug(&self) -> String {
        format!("{:?}\n{:#?}", &*self.0, &*self.0)
    }
    fn alg(&self) -> String {
        fmt_alg::<M>()
    }
    fn has_async(&self) -> bool {
        self.0.cap_async()
    }
    fn finish(self: Box<Self>, kind: u8, pad: u8, inp: &[u8], out: &mut [u8]) -> Result<usize, ()> {
        let m = self.0.take();
        match kind {
            0 => {
                let n = inp.len().min(out.len());
                out[..n].copy_from_slice(&inp[..n]);
                with_pad!(pad, P => m.encrypt_padded::<P>(out, inp.len()).map(|s| s.len()).map_err(|_| ()))
            }
            1 => with_pad!(pad, P => m.encrypt_padded_b2b::<P>(inp, out).map(|s| s.len()).map_err(|_| ())),
            2 => {
                let v = with_pad!(pad, P => m.encrypt_padded_vec::<P>(inp));
                out[..v.len()].copy_from_slice(&v);
                Ok(v.len())
            }
            3..=5 => m.cap_async_enc(kind, inp, out),
            _ => panic!("harness: finish kind"),
        }
    }
    fn blocks_b2b_raw(&mut self, inp: &[u8], out: &mut [u8]) -> Result<(), ()> {
        self.0
            .encrypt_blocks_b2b(as_blocks::<M::BlockSize>(inp), as_blocks_mut::<M::BlockSize>(out))
            .map_err(|_| ())
    }
    fn drop_scan(self: Box<Self>) -> Vec<u8> {
        self.0.drop_scan()
    }
    fn peek(&self) -> Vec<u8> {
        self.0.peek()
    }
    fn as_any(&self) -> &dyn core::any::Any {
        self
    }
    fn assign_from(&mut self, src: &dyn core::any::Any) -> bool {
        match src.downcast_ref::<EncO<M>>() {
            Some(s) => {
                (*self.0).clone_from(&*s.0);
                true
            }
            None => false,
        }
    }
}

impl<M> BlockObj for DecO<M>
where
    M: BlockModeDecrypt + Clone + Debug + AlgorithmName + Caps + 'static,
{
    fn bs(&self) -> usize {
        M::BlockSize::USIZE
    }
    fn is_enc(&self) -> bool {
        false
    }
    fn proc(&mut self, via: u8, seed: u64, inp: &[u8], out: &mut [u8]) {
        assert_eq!(inp.len(), out.len());
        let m: &mut M = &mut self.0;
        if via_in_place(via) {
            out.copy_from_slice(inp);
        }
        match via {
            VIA_BLOCK => {
                for b in as_blocks_mut::<M::BlockSize>(out) {
                    m.decrypt_block(b);
                }
            }
            VIA_BLOCK_INOUT => {
                let i = as_blocks::<M::BlockSize>(inp);
                let o = as_blocks_mut::<M::BlockSize>(out);
                for (a, b) in i.iter().zip(o.iter_mut()) {
                    m.decrypt_block_inout((a, b).into());
                }
            }
            VIA_BLOCK_B2B => {
                let i = as_blocks::<M::BlockSize>(inp);
                let o = as_blocks_mut::<M::BlockSize>(out);
                for (a, b) in i.iter().zip(o.iter_mut()) {
                    m.decrypt_block_b2b(a, b);
                }
            }
            VIA_BLOCKS => m.decrypt_blocks(as_blocks_mut::<M::BlockSize>(out)),
            VIA_BLOCKS_INOUT => {
                let io = InOutBuf::new(as_blocks::<M::BlockSize>(inp), as_blocks_mut::<M::BlockSize>(out)).unwrap();
                m.decrypt_blocks_inout(io);
            }
            VIA_BLOCKS_B2B => m
                .decrypt_blocks_b2b(as_blocks::<M::BlockSize>(inp), as_blocks_mut::<M::BlockSize>(out))
                .unwrap(),
            VIA_SCRIPT => {
                let blocks = as_blocks_mut::<M::BlockSize>(out).into();
                m.decrypt_with_backend(DecScript { blocks, seed, inplace: via == VIA_SCRIPT });
            }
            VIA_SCRIPT_B2B => {
                let blocks = InOutBuf::new(as_blocks::<M::BlockSize>(inp), as_blocks_mut::<M::BlockSize>(out)).unwrap();
                m.decrypt_with_backend(DecScript { blocks, seed, inplace: via == VIA_SCRIPT });
            }
            VIA_BLOCKS_INOUT_INPLACE => {
                m.decrypt_blocks_inout(as_blocks_mut::<M::BlockSize>(out).into());
            }
            _ => panic!("harness: via {}", via),
        }
    }
    fn export(&self) -> Option<Vec<u8>> {
        self.0.cap_export()
    }
    fn dup(&self) -> Box<dyn BlockObj> {
        Box::new(DecO(Slot::new((*self.0).clone())))
    }
    fn debug(&self) -> String {
        format!("{:?}\n{:#?}", &*self.0, &*self.0)
    }
    fn alg(&self) -> String {
        fmt_alg::<M>()
    }
    fn has_async(&self) -> bool {
        self.0.cap_async()
    }
    fn finish(self: Box<Self>, kind: u8, pad: u8, inp: &[u8], out: &mut [u8]) -> Result<usize, ()> {
        let m = self.0.take();
        match kind {
            0 => {
                let n = inp.len();
                out[..n].copy_from_slice(inp);
                with_pad!(pad, P => m.decrypt_padded::<P>(&mut out[..n]).map(|s| s.len()).map_err(|_| ()))
            }
            1 => with_pad!(pad, P => m.decrypt_padded_b2b::<P>(inp, out).map(|s| s.len()).map_err(|_| ())),
            2 => {
                let v = with_pad!(pad, P => m.decrypt_padded_vec::<P>(inp)).map_err(|_| ())?;
                out[..v.len()].copy_from_slice(&v);
                Ok(v.len())
            }
            3..=5 => m.cap_async_dec(kind, inp, out),
            _ => panic!("harness: finish kind"),
        }
    }
    fn blocks_b2b_raw(&mut self, inp: &[u8], out: &mut [u8]) -> Result<(), ()> {
        self.0
            .decrypt_blocks_b2b(as_blocks::<M::BlockSize>(inp), as_blocks_mut::<M::BlockSize>(out))
            .map_err(|_| ())
    }
    fn drop_scan(self: Box<Self>) -> Vec<u8> {
        self.0.drop_scan()
    }
    fn peek(&self) -> Vec<u8> {
        self.0.peek()
    }
    fn as_any(&self) -> &dyn core::any::Any {
        self
    }
    fn assign_from(&mut self, src: &dyn core::any::Any) -> bool {
        match src.downcast_ref::<DecO<M>>() {
            Some(s) => {
                (*self.0).clone_from(&*s.0);
                true
            }
            None => false,
        }
    }
}

pub fn async_enc<M: AsyncStreamCipher + BlockModeEncrypt>(m: M, kind: u8, inp: &[u8], out: &mut [u8]) -> Result<usize, ()> {
    match kind {
        3 => {
            let n = inp.len();
            out[..n].copy_from_slice(inp);
            m.encrypt(&mut out[..n]);
            Ok(n)
        }
        4 => m.encrypt_b2b(inp, out).map(|_| inp.len()).map_err(|_| ()),
        _ => {
            let io = InOutBuf::new(inp, out).map_err(|_| ())?;
            m.encrypt_inout(io);
            Ok(inp.len())
        }
    }
}
pub fn async_dec<M: AsyncStreamCipher + BlockModeDecrypt>(m: M, kind: u8, inp: &[u8], out: &mut [u8]) -> Result<usize, ()> {
    match kind {
        3 => {
            let n = inp.len();
            out[..n].copy_from_slice(inp);
            m.decrypt(&mut out[..n]);
            Ok(n)
        }
        4 => m.decrypt_b2b(inp, out).map(|_| inp.len()).map_err(|_| ()),
        _ => {
            let io = InOutBuf::new(inp, out).map_err(|_| ())?;
            m.decrypt_inout(io);
            Ok(inp.len())
        }
    }
}

/// constructors: 0 inner_iv_init(cipher, iv), 1 KeyIvInit::new(key, iv), 2 new_from_slices(key, iv),
/// 3 inner_iv_slice_init(cipher, iv).  0 and 1 need exact lengths (harness error otherwise);
/// 2 and 3 report the library's own verdict.
pub fn construct<M>(cipher: M::Inner, key: &[u8], iv: &[u8], ctor: u8) -> Result<M, ()>
where
    M: InnerIvInit + KeyIvInit,
{
    match ctor {
        0 => {
            assert_eq!(iv.len(), <M as IvSizeUser>::IvSize::USIZE, "harness: iv length");
            let ivb = Array::<u8, <M as IvSizeUser>::IvSize>::try_from(iv).unwrap();
            Ok(M::inner_iv_init(cipher, &ivb))
        }
        1 => {
            assert_eq!(iv.len(), <M as IvSizeUser>::IvSize::USIZE, "harness: iv length");
            let ivb = Array::<u8, <M as IvSizeUser>::IvSize>::try_from(iv).unwrap();
            let kb = Array::<u8, <M as cipher::KeySizeUser>::KeySize>::try_from(key).expect("harness: key length");
            Ok(<M as KeyIvInit>::new(&kb, &ivb))
        }
        2 => <M as KeyIvInit>::new_from_slices(key, iv).map_err(|_| ()),
        _ => M::inner_iv_slice_init(cipher, iv).map_err(|_| ()),
    }
}

pub fn export_iv<M: IvState>(m: &M) -> Vec<u8> {
    m.iv_state().to_vec()
}

#[allow(unused)]
fn _b<M: BlockSizeUser>() -> usize {
    core::mem::size_of::<Block<M>>()
}
