#![allow(dead_code)]
mod checks;
mod engine;
mod factory;
mod findings;
mod json;
mod model;
mod obj;
mod prng;
mod scn;
mod simcipher;
mod slot;
mod sobj;

use engine::RunOpts;

fn usage() -> ! {
    eprintln!("usage: vsim check <ID> [--tier quick|thorough] [--seed N] [--threads N] [--runs N] [--root DIR]\n       vsim replay <file> [--root DIR] [--quiet]\n       vsim selftest\n       vsim list");
    std::process::exit(2)
}

fn main() {
    let args: Vec<String> = std::env::args().collect();
    if args.len() < 2 {
        usage();
    }
    let opt = |name: &str| -> Option<String> { args.iter().position(|a| a == name).and_then(|i| args.get(i + 1).cloned()) };
    let flag = |name: &str| args.iter().any(|a| a == name);
    let root = opt("--root").unwrap_or_else(|| "/verif".to_string());
    engine::install_panic_hook();
    if let Err(e) = simcipher::self_test() {
        println!("HARNESS-ERROR: {}", e);
        std::process::exit(2);
    }
    let defs = checks::all();
    match args[1].as_str() {
        "selftest" => {
            println!("selftest ok");
        }
        "list" => {
            for d in &defs {
                println!("{} {} quick={} thorough={}", d.id, d.level, d.runs_quick, d.runs_thorough);
            }
        }
        "check" => {
            let id = args.get(2).cloned().unwrap_or_else(|| usage());
            let def = match defs.iter().find(|d| d.id == id) {
                Some(d) => d,
                None => {
                    println!("HARNESS-ERROR: unknown check {}", id);
                    std::process::exit(2);
                }
            };
            let tier = opt("--tier").or_else(|| std::env::var("VERIF_TIER").ok()).unwrap_or_else(|| "quick".into());
            let seed = opt("--seed")
                .or_else(|| std::env::var("VERIF_SEED").ok())
                .and_then(|s| s.trim().parse::<u64>().ok())
                .unwrap_or(1);
            let threads = opt("--threads")
                .or_else(|| std::env::var("VERIF_THREADS").ok())
                .and_then(|s| s.parse().ok())
                .unwrap_or(16);
            let runs = opt("--runs").and_then(|s| s.parse().ok());
            let o = RunOpts { root, tier_thorough: tier == "thorough", seed, threads, runs_override: runs, quiet: flag("--quiet"), control_out: opt("--control-out"), control_in: opt("--control-in") };
            std::process::exit(engine::run_check(def, &o));
        }
        "fp" => {
            let id = args.get(2).cloned().unwrap_or_else(|| usage());
            let def = defs.iter().find(|d| d.id == id).unwrap_or_else(|| usage());
            let runs = opt("--runs").and_then(|s| s.parse().ok()).unwrap_or(2000);
            let threads = opt("--threads").and_then(|s| s.parse().ok()).unwrap_or(16);
            let seed = opt("--seed").and_then(|s| s.parse().ok()).unwrap_or(1);
            println!("{}", engine::batch_fingerprint(def, seed, runs, threads).0);
        }
        "determinism" => {
            let runs = opt("--runs").and_then(|s| s.parse().ok()).unwrap_or(3000);
            let nseeds: u64 = opt("--seeds").and_then(|s| s.parse().ok()).unwrap_or(3);
            let seeds: Vec<u64> = (0..nseeds).map(|i| 1 + i * 7919).collect();
            std::process::exit(engine::determinism(&defs, runs, &seeds));
        }
        "replay" => {
            let path = args.get(2).cloned().unwrap_or_else(|| usage());
            std::process::exit(engine::replay(&defs, &path, flag("--quiet")));
        }
        _ => usage(),
    }
}
